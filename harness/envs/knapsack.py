"""Knapsack adapter: configurations (sizes, budgets, both reward functions, uniform and dyadic generators)."""
import numpy as np

from harness import jsonify
from harness.envs.base import EnvAdapter


def _dyadic_generator(num_items, total_budget):
    """Custom generator following jumanji's Generator interface: weights and values are multiples of 1/64
    in [0, 1) (k/64, k = 0..63), exactly representable in float32 together with every partial sum, so the
    fixed-point export (x * 65536) is exact and the trace clauses compare with tolerance 0."""
    import jax
    import jax.numpy as jnp

    from jumanji.environments.packing.knapsack.generator import Generator
    from jumanji.environments.packing.knapsack.types import State

    class DyadicGenerator(Generator):
        def __call__(self, key):
            key, wkey, vkey = jax.random.split(key, 3)
            weights = jax.random.randint(wkey, (self.num_items,), 0, 64).astype(jnp.float32) / 64.0
            values = jax.random.randint(vkey, (self.num_items,), 0, 64).astype(jnp.float32) / 64.0
            from harness import inject
            from jumanji.environments.packing.knapsack.generator import RandomGenerator

            return inject.state_like(RandomGenerator(self.num_items, self.total_budget)(key), weights=weights, values=values,
                                     packed_items=jnp.zeros(self.num_items, dtype=bool),
                                     remaining_budget=jnp.array(self.total_budget, float), key=key)

    return DyadicGenerator(num_items, total_budget)


def _ulp_generator(num_items, total_budget):
    """Custom generator for comparisons decided by ONE unit in the last place: the weights are the dyadic numbers 1/2, 1/4,
    1/8, their float32 neighbours just above and just below, and 3/8, in a key-dependent order.  With a dyadic budget the
    remaining budget regularly equals one of them exactly, so that an item one ulp too heavy (illegal) and an item one ulp
    lighter (legal) are both on offer while other items still fit."""
    import jax
    import jax.numpy as jnp

    from jumanji.environments.packing.knapsack.generator import Generator, RandomGenerator

    f = np.float32
    base = [f(0.5), np.nextafter(f(0.5), f(1)), np.nextafter(f(0.5), f(0)), f(0.25), np.nextafter(f(0.25), f(1)),
            np.nextafter(f(0.25), f(0)), f(0.125), np.nextafter(f(0.125), f(1)), f(0.375), f(0.125)]
    pool = np.asarray((base * (num_items // len(base) + 1))[:num_items], dtype=np.float32)

    class UlpGenerator(Generator):
        def __call__(self, key):
            from harness import inject

            key, pkey, vkey = jax.random.split(key, 3)
            weights = jax.random.permutation(pkey, jnp.asarray(pool))
            values = jax.random.randint(vkey, (self.num_items,), 1, 64).astype(jnp.float32) / 64.0
            return inject.state_like(RandomGenerator(self.num_items, self.total_budget)(key), weights=weights, values=values,
                                     packed_items=jnp.zeros(self.num_items, dtype=bool),
                                     remaining_budget=jnp.array(self.total_budget, float), key=key)

    return UlpGenerator(num_items, total_budget)


def _jitter_generator(num_items, total_budget):
    """Custom generator that provokes near-ties of budget against weight: weights and values are
    k/16 + j * 2^-24 (k = 0..15, j = -3..3, clipped at 0).  With a budget that is a multiple of 1/16 every
    number and every partial sum is exact in float32, but the jitter (j/256 of a fixed-point unit) is
    invisible in the x * 65536 export: `remaining_budget - weight` is frequently 0 in fixed point while its
    real sign is that of the jitter.  Exercises the undecided branch of the tolerant clauses (exact = False)."""
    import jax
    import jax.numpy as jnp

    from jumanji.environments.packing.knapsack.generator import Generator
    from jumanji.environments.packing.knapsack.types import State

    class JitterGenerator(Generator):
        def __call__(self, key):
            key, k1, k2, k3, k4 = jax.random.split(key, 5)
            n = self.num_items

            def draw(ka, kb):
                base = jax.random.randint(ka, (n,), 0, 16).astype(jnp.float32) / 16.0
                jit = jax.random.randint(kb, (n,), -3, 4).astype(jnp.float32) * jnp.float32(2.0 ** -24)
                return jnp.maximum(base + jit, 0.0)

            from harness import inject
            from jumanji.environments.packing.knapsack.generator import RandomGenerator

            return inject.state_like(RandomGenerator(n, self.total_budget)(key), weights=draw(k1, k2), values=draw(k3, k4),
                                     packed_items=jnp.zeros(n, dtype=bool),
                                     remaining_budget=jnp.array(self.total_budget, float), key=key)

    return JitterGenerator(num_items, total_budget)


def _c(id, gen, n, budget, rew, episodes, **kw):
    d = dict(id=id, ctor=dict(generator=gen, num_items=n, total_budget=budget, reward_fn=rew),
             episodes=episodes, max_steps=n + 3)
    d.update(kw)
    return d


class Adapter(EnvAdapter):
    name = "Knapsack"
    props = ("C01", "C03", "C04", "C05", "C06", "C08", "C09", "C10", "C11", "C12")
    gen_heavy = {'u10_b2p5_sparse': (60, 300), 'u3_b0p8_dense': (60, 300)}

    def configs(self, tier):
        pol4 = ["masked", "random", "mostly_masked", "greedy_light"]
        if tier == "quick":
            return [
                # default size (Knapsack-v1): 50 items, budget 12.5, dense; probes every 3rd state (50 actions each)
                _c("u50_b12p5_dense", "uniform", 50, 12.5, "dense", 4, probe_every=4, default_ctor=True,
                   policies=["masked", "greedy_light", "mostly_masked", "random"]),
                _c("u10_b2p5_sparse", "uniform", 10, 2.5, "sparse", 10, policies=pol4),
                _c("u10_b12p5_dense", "uniform", 10, 12.5, "dense", 4, policies=["masked", "mostly_masked"]),  # all fit: horizon
                _c("u3_b12p5_sparse", "uniform", 3, 12.5, "sparse", 10, policies=pol4),  # all fit: horizon
                _c("u3_b0p8_dense", "uniform", 3, 0.8, "dense", 16, policies=pol4),
                _c("u10_b0p3_dense", "uniform", 10, 0.3, "dense", 8, policies=pol4),  # non-dyadic, tight budget
                # float32-exact numbers whose differences are below the fixed-point resolution (near-ties)
                _c("j10_b1_dense", "jitter", 10, 1.0, "dense", 8, policies=pol4),
                _c("j6_b1p5_sparse", "jitter", 6, 1.5, "sparse", 8, policies=pol4),
                # exact arithmetic
                _c("d50_b12p5_sparse", "dyadic", 50, 12.5, "sparse", 4, probe_every=4,
                   policies=["masked", "greedy_light", "mostly_masked", "random"]),
                _c("d10_b2_dense", "dyadic", 10, 2.0, "dense", 12, policies=pol4),
                _c("d10_b1p5_sparse", "dyadic", 10, 1.5, "sparse", 12, policies=pol4),
                _c("d3_b1_sparse", "dyadic", 3, 1.0, "sparse", 20, policies=pol4),
                _c("d3_b0_dense", "dyadic", 3, 0.0, "dense", 12, policies=pol4),  # only weight-0 items fit
                _c("d4_b0p25_dense", "dyadic", 4, 0.25, "dense", 16, policies=pol4),
                # comparisons decided by one unit in the last place (items one ulp too heavy / just light enough)
                _c("ulp8_b1_dense", "ulp", 8, 1.0, "dense", 12, policies=pol4),
                _c("ulp10_b1_sparse", "ulp", 10, 1.0, "sparse", 8, policies=pol4),
            ]
        out = []
        for gen in ("uniform", "dyadic"):
            g = gen[0]
            for n, budgets, eps in ((3, (0.0, 0.5, 1.0, 12.5), 60), (10, (0.3 if gen == "uniform" else 0.25, 1.5, 2.5, 12.5), 40),
                                    (50, (2.0, 12.5, 50.0), 8)):
                for b in budgets:
                    for rew in ("dense", "sparse"):
                        out.append(_c(f"{g}{n}_b{str(b).replace('.', 'p')}_{rew}", gen, n, b, rew, eps, policies=pol4,
                                      probe_every=(2 if n == 50 else 1)))
        for n, b, rew in ((10, 1.0, "dense"), (10, 1.0, "sparse"), (6, 1.5, "sparse"), (20, 2.0, "dense")):
            out.append(_c(f"j{n}_b{str(b).replace('.', 'p')}_{rew}", "jitter", n, b, rew, 40, policies=pol4))
        out += [_c("u1_b0p5_dense", "uniform", 1, 0.5, "dense", 12, policies=pol4), _c("u2_b0p6_sparse", "uniform", 2, 0.6, "sparse", 12, policies=pol4),
                _c("u50_b2_int_dense", "uniform", 50, 2, "dense", 4, policies=pol4, probe_every=3),      # integer-typed budget
                _c("u130_b5_sparse", "uniform", 130, 5.0, "sparse", 3, policies=pol4, probe_every=13, probe_cap=40)]  # > 127 items
        out += [_c("ulp8_b1_dense", "ulp", 8, 1.0, "dense", 60, policies=pol4), _c("ulp10_b1_sparse", "ulp", 10, 1.0, "sparse", 60, policies=pol4),
                _c("ulp10_b0p75_dense", "ulp", 10, 0.75, "dense", 40, policies=pol4)]
        for c in out:       # the registered default is built by the library's own no-argument constructor
            if c["id"] == "u50_b12p5_dense":
                c["default_ctor"] = True
        return out

    # ---- the real environment -------------------------------------------------------------
    def _build(self, ctor, rew):
        from jumanji.environments.packing.knapsack import Knapsack
        from jumanji.environments.packing.knapsack.generator import RandomGenerator
        from jumanji.environments.packing.knapsack.reward import DenseReward, SparseReward

        n, b = ctor["num_items"], ctor["total_budget"]
        gen = {"uniform": RandomGenerator, "dyadic": _dyadic_generator, "jitter": _jitter_generator,
               "ulp": _ulp_generator}[ctor["generator"]](n, b)
        return Knapsack(generator=gen, reward_fn=DenseReward() if rew == "dense" else SparseReward())

    def make(self, cfg):
        if cfg.get("default_ctor"):       # the documented defaults come from the library's own no-argument constructor
            from jumanji.environments.packing.knapsack import Knapsack

            return Knapsack()
        return self._build(cfg["ctor"], cfg["ctor"]["reward_fn"])

    def make_alt(self, cfg):
        return self._build(cfg["ctor"], "sparse" if cfg["ctor"]["reward_fn"] == "dense" else "dense")

    def project_state(self, env, state):
        out = super().project_state(env, state)
        # the float32 comparisons the rule is about, exactly (the fixed-point export cannot tell 0.5 from 0.5 + one ulp)
        w = np.asarray(state.weights, dtype=np.float32)
        out["fits"] = [bool(x) for x in (w <= np.float32(np.asarray(state.remaining_budget)))]
        return out

    def cfg_record(self, cfg, env):
        c = cfg["ctor"]
        # what the harness REQUESTED; the budget is stored by jumanji as a float32 scalar
        return {"num_items": c["num_items"], "budget_q": jsonify.fx(np.float32(c["total_budget"])),
                "reward_fn": c["reward_fn"], "generator": c["generator"], "exact": c["generator"] == "dyadic"}

    # ---- policies --------------------------------------------------------------------------
    def choose(self, policy, env, state, obs, rng, i):
        if policy == "greedy_light":
            # lightest item the implementation's mask allows: packs as many items as possible (long episodes)
            m = np.asarray(obs.action_mask)
            if m.any():
                w = np.where(m, np.asarray(obs.weights), np.inf)
                return np.asarray(int(np.argmin(w)), dtype=env.action_spec.dtype)
            return self.random_actions(env, rng, 1)[0]
        return super().choose(policy, env, state, obs, rng, i)
