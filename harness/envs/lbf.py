"""Adapter of jumanji's LevelBasedForaging (multi-agent foraging on a grid).

Configurations: the registered default (8x8, 2 agents, 2 food, full view), 6x6 / 2 / 1, 7x7 / 4 / 2 with
fov 2, 10x10 / 3 / 3 with fov 3; force_coop on / off; penalty 0 and 0.5; normalize_reward on / off; both
observers (vector and grid); time limits 1, 2, 3, 7, 100.

Probes: the whole joint action space when it fits the cap (2 agents: 36 joint actions), otherwise every
agent's six actions with the other agents on random actions, simultaneous moves of two agents into a
common free cell, joint loads next to food, then random joint actions.
"""
from fractions import Fraction

import numpy as np

from harness.envs.base import EnvAdapter

_DELTA = {0: (0, 0), 1: (-1, 0), 2: (1, 0), 3: (0, -1), 4: (0, 1), 5: (0, 0)}
NOOP, UP, DOWN, LEFT, RIGHT, LOAD = range(6)


class Adapter(EnvAdapter):
    name = "LBF"
    props = ("C01", "C03", "C04", "C05", "C07", "C08", "C09", "C10", "C11", "C12")
    gen_heavy = {'g6a2f1_t1': (60, 400), 'g7a4f2_t7': (40, 300), 'g8a3f1_lvl4_t3': (40, 300)}
    probe_cap = 36

    # ---- configurations -------------------------------------------------------------------
    def configs(self, tier):
        # time-limit sweep ("for every value passed", C11): one idle episode per value (all agents no-op), no probes
        from harness.envs.base import T_SWEEP_QUICK_FEW, T_SWEEP_THOROUGH_FEW

        ts = T_SWEEP_QUICK_FEW if tier == "quick" else T_SWEEP_THOROUGH_FEW
        base = self._base_configs(tier)
        ctor = dict(grid_size=6, num_agents=2, num_food=1, fov=6, max_agent_level=2, force_coop=True, grid_observation=False,
                    normalize_reward=True, penalty=0.5)
        sweep = [dict(id=f"g6a2f1_t{t}_sweep", ctor=dict(ctor, time_limit=t), episodes=1, max_steps=t + 2,
                      policies=["idle"], probe_every=0, props=["C01", "C03", "C11", "C12"]) for t in ts]
        return base + sweep

    def _base_configs(self, tier):
        pol = ["forage", "random", "crowd", "masked", "mostly_masked"]

        def c(id, g, na, nf, fov, t, episodes, max_steps, coop=True, pen=0.0, norm=True, grid=False,
              lvl=2, **kw):
            d = dict(id=id, ctor=dict(grid_size=g, num_agents=na, num_food=nf, fov=fov, max_agent_level=lvl,
                                      force_coop=coop, time_limit=t, grid_observation=grid,
                                      normalize_reward=norm, penalty=pen),
                     episodes=episodes, max_steps=max_steps, policies=pol)
            d.update(kw)
            return d

        def inj(id, limit, grid, pen=0.0):
            # INJ: reachable states of the 3x3 TLC model (2 agents, 1 food, mid-episode states included) as start
            # states of the real environment, every joint action from each
            d = c(id, 3, 2, 1, 1, 100, 1, 1, coop=False, pen=pen, grid=grid)
            d.update(inject=("MC_LBF", "MC_LBF_dump.cfg"), limit=limit, post_terminal=0, probe_cap=36,
                     policies=["random"], props=["C03", "C04", "C05", "C07", "C09", "C12"])
            return d

        if tier == "quick":
            return [
                dict(id="default", ctor=dict(default=True, grid_size=8, num_agents=2, num_food=2, fov=8,
                                             max_agent_level=2, force_coop=True, time_limit=100,
                                             grid_observation=False, normalize_reward=True, penalty=0.0),
                     episodes=3, max_steps=104, probe_every=6, policies=["forage", "random", "crowd"]),
                c("g6a2f1_t7_pen", 6, 2, 1, 6, 7, 5, 11, pen=0.5, probe_cap=20),
                c("g6a2f1_t3_raw", 6, 2, 1, 3, 3, 5, 7, coop=False, pen=0.5, norm=False, probe_cap=20),
                c("g6a2f1_t1", 6, 2, 1, 2, 1, 5, 4, probe_cap=20),
                c("g6a2f1_t2_grid", 6, 2, 1, 2, 2, 5, 5, grid=True, coop=False, probe_cap=20),
                c("g6a2f1_t100", 6, 2, 1, 6, 100, 4, 40, coop=False, probe_every=2, probe_cap=20,
                  policies=["forage", "crowd"]),
                c("g7a4f2_fov2_raw", 7, 4, 2, 2, 100, 3, 60, coop=True, norm=False, lvl=3, probe_every=4, probe_cap=36,
                  policies=["forage", "crowd"]),
                c("g7a4f2_t7", 7, 4, 2, 2, 7, 3, 10, coop=False, probe_every=2, probe_cap=36),
                c("g10a3f3_fov3_grid", 10, 3, 3, 3, 100, 3, 70, grid=True, probe_every=7, probe_cap=30,
                  policies=["forage", "crowd"]),
                c("g8a2f2_grid_t7", 8, 2, 2, 8, 7, 2, 10, grid=True, pen=0.5, probe_cap=10),
                # the penalty given as a Python int: rewards must stay float32
                c("g5a2f1_t3_penint", 5, 2, 1, 2, 3, 3, 6, coop=False, pen=1, norm=False, probe_cap=12),
                c("g6a1f2_t7", 6, 1, 2, 6, 7, 4, 11, coop=False, probe_cap=6),     # a single agent
                # fewer food items than agents and high agent levels: the food level (up to the sum of three agent levels)
                # is then the largest number an observation can hold
                c("g8a3f1_lvl4_t3", 8, 3, 1, 8, 3, 10, 5, coop=True, lvl=4, probe_cap=12),
                c("g8a2f1_lvl6_grid_t2", 8, 2, 1, 8, 2, 8, 4, coop=True, lvl=6, grid=True, probe_cap=8),
                inj("inj3_vec", 40, grid=False),
                inj("inj3_grid", 20, grid=True, pen=0.5),
            ]
        out = []
        out.append(dict(id="default", ctor=dict(default=True, grid_size=8, num_agents=2, num_food=2, fov=8,
                                                max_agent_level=2, force_coop=True, time_limit=100,
                                                grid_observation=False, normalize_reward=True, penalty=0.0),
                        episodes=20, max_steps=104, probe_every=3, policies=pol))
        for t in (1, 2, 3, 7, 100):
            ms = min(t, 50) + 4
            pe = 1 if t <= 3 else 2 if t == 7 else 6
            ne = 12 if t <= 7 else 5
            for coop in (True, False):
                for pen in (0.0, 0.5):
                    norm = not (coop and pen)          # raw rewards on one branch of the matrix
                    tag = f"{'c' if coop else 'n'}{'p' if pen else 'z'}"
                    out.append(c(f"g6a2f1_t{t}_{tag}", 6, 2, 1, 3 if coop else 6, t, ne, ms, coop=coop, pen=pen,
                                 norm=norm, probe_every=pe))
            out.append(c(f"g7a4f2_fov2_t{t}", 7, 4, 2, 2, t, ne, ms, coop=False, probe_every=pe + 1, probe_cap=48))
            out.append(c(f"g7a4f2_fov2_t{t}_raw", 7, 4, 2, 2, t, ne // 2 + 1, ms, coop=True, pen=0.5, norm=False, lvl=3,
                         probe_every=pe + 1, probe_cap=48))
            out.append(c(f"g10a3f3_fov3_t{t}", 10, 3, 3, 3, t, ne, ms, probe_every=pe + 1, probe_cap=40))
            out.append(c(f"g10a3f3_fov3_grid_t{t}", 10, 3, 3, 3, t, ne // 2 + 1, ms, grid=True, coop=False, pen=0.5,
                         probe_every=pe + 1, probe_cap=40))
            out.append(c(f"g6a2f1_grid_t{t}", 6, 2, 1, 2, t, ne, ms, grid=True, probe_every=pe))
            out.append(c(f"g8a2f2_grid_t{t}", 8, 2, 2, 8, t, 3, ms, grid=True, probe_every=pe + 2, probe_cap=18))
            out.append(c(f"g8a2f2_fov1_t{t}", 8, 2, 2, 1, t, ne, ms, coop=False, probe_every=pe))
        # a single agent (cannot cooperate: force_coop off), more food than agents, higher levels; explicit limit 100 reached
        out.append(c("g6a1f2_t7", 6, 1, 2, 6, 7, 10, 11, coop=False))
        out.append(c("g5a1f1_grid_t3", 5, 1, 1, 2, 3, 8, 7, coop=False, grid=True, pen=0.5))
        out.append(c("g8a2f4_lvl4_t7", 8, 2, 4, 3, 7, 8, 11, coop=False, lvl=4, probe_every=2, probe_cap=36))
        out.append(c("g8a3f1_lvl4_t3", 8, 3, 1, 8, 3, 40, 5, coop=True, lvl=4, probe_cap=12))
        out.append(c("g8a2f1_lvl6_grid_t2", 8, 2, 1, 8, 2, 30, 4, coop=True, lvl=6, grid=True, probe_cap=8))
        out.append(c("g9a4f2_lvl5_t3", 9, 4, 2, 4, 3, 20, 5, coop=True, lvl=5, probe_cap=16))
        out.append(c("g6a2f1_t100_full", 6, 2, 1, 6, 100, 3, 104, coop=True, probe_every=10, probe_cap=20, policies=["random", "idle"]))
        out.append(inj("inj3_vec", 900, grid=False))
        out.append(inj("inj3_grid", 600, grid=True, pen=0.5))
        return out

    def make(self, cfg):
        from jumanji.environments import LevelBasedForaging
        from jumanji.environments.routing.lbf.generator import RandomGenerator

        k = cfg["ctor"]
        if k.get("default"):
            return LevelBasedForaging()          # the registered defaults (time_limit 100 in the constructor)
        if "inject" in cfg:
            gen = self._table_generator(cfg)
            return LevelBasedForaging(generator=gen, time_limit=k["time_limit"],
                                      grid_observation=k["grid_observation"],
                                      normalize_reward=k["normalize_reward"], penalty=k["penalty"])
        gen = RandomGenerator(grid_size=k["grid_size"], fov=k["fov"], num_agents=k["num_agents"],
                              num_food=k["num_food"], max_agent_level=k["max_agent_level"],
                              force_coop=k["force_coop"])
        return LevelBasedForaging(generator=gen, time_limit=k["time_limit"], grid_observation=k["grid_observation"],
                                  normalize_reward=k["normalize_reward"], penalty=k["penalty"])

    def _table_generator(self, cfg):
        """A generator whose `__call__(key)` returns state number key[1] of the TLC dump (reset, step, mask and
        observer code stay the real ones)."""
        import jax.numpy as jnp

        from harness import inject
        from jumanji.environments.routing.lbf.generator import RandomGenerator
        from jumanji.environments.routing.lbf.types import Agent, Food, State

        k = cfg["ctor"]
        states, _ = inject.dump_states(cfg["inject"][0], cfg["inject"][1], limit=None)
        states = sorted(states, key=repr)
        if cfg.get("limit") and len(states) > cfg["limit"]:
            # an even sample, 4/5 of it from the states with food left (the finished ones are less telling)
            def even(lst, m):
                m = min(m, len(lst))
                return [lst[int(j * len(lst) / m)] for j in range(m)] if m else []

            live = [s for s in states if not all(s["food_items"]["eaten"])]
            done = [s for s in states if all(s["food_items"]["eaten"])]
            n_live = min(len(live), cfg["limit"] - min(len(done), cfg["limit"] // 5))
            states = even(live, n_live) + even(done, cfg["limit"] - n_live)
        cfg["episodes"] = len(states)
        col = lambda f, dt: jnp.asarray(np.array([f(s) for s in states], dtype=dt))
        tab = dict(apos=col(lambda s: s["agents"]["position"], np.int32),
                   alvl=col(lambda s: s["agents"]["level"], np.int32),
                   aload=col(lambda s: s["agents"]["loading"], bool),
                   fpos=col(lambda s: s["food_items"]["position"], np.int32),
                   flvl=col(lambda s: s["food_items"]["level"], np.int32),
                   eaten=col(lambda s: s["food_items"]["eaten"], bool),
                   sc=col(lambda s: s["step_count"], np.int32))
        n = len(states)

        class TableGenerator(RandomGenerator):
            def __init__(self):      # RandomGenerator.__init__ refuses grids below 5 x 5; the TLC model is 3 x 3
                self.grid_size = k["grid_size"]
                self.fov = k["fov"]
                self.num_agents = k["num_agents"]
                self.num_food = k["num_food"]
                self.max_agent_level = k["max_agent_level"]
                self.force_coop = k["force_coop"]

            def __call__(self, key):
                j = key[1] % n
                # template: a state of the library's own generator with the same numbers of agents and food (any grid)
                tpl = RandomGenerator(grid_size=8, fov=8, num_agents=self.num_agents, num_food=self.num_food,
                                      max_agent_level=self.max_agent_level, force_coop=self.force_coop)(key)
                agents = inject.state_like(tpl.agents, id=jnp.arange(self.num_agents, dtype=jnp.int32), position=tab["apos"][j],
                                           level=tab["alvl"][j], loading=tab["aload"][j])
                food = inject.state_like(tpl.food_items, id=jnp.arange(self.num_food, dtype=jnp.int32), position=tab["fpos"][j],
                                         level=tab["flvl"][j], eaten=tab["eaten"][j])
                return inject.state_like(tpl, key=key, step_count=tab["sc"][j], agents=agents, food_items=food)

        return TableGenerator()

    def episode_key(self, cfg, ep, seed):
        if "inject" not in cfg:
            return None
        import jax.numpy as jnp

        return jnp.asarray([0, ep], dtype=jnp.uint32)

    def cfg_record(self, cfg, env):
        k = cfg["ctor"]
        pen = Fraction(k["penalty"]).limit_denominator(1000)
        return dict(grid_size=k["grid_size"], num_agents=k["num_agents"], num_food=k["num_food"], fov=k["fov"],
                    max_agent_level=k["max_agent_level"], force_coop=bool(k["force_coop"]),
                    time_limit=k["time_limit"], grid_observation=bool(k["grid_observation"]),
                    normalize_reward=bool(k["normalize_reward"]),
                    penalty_num=pen.numerator, penalty_den=pen.denominator, injected="inject" in cfg)

    # ---- helpers on the concrete state ----------------------------------------------------
    @staticmethod
    def _view(state):
        pos = np.asarray(state.agents.position)
        lvl = np.asarray(state.agents.level)
        fpos = np.asarray(state.food_items.position)
        flvl = np.asarray(state.food_items.level)
        eaten = np.asarray(state.food_items.eaten)
        return pos, lvl, fpos, flvl, eaten

    def _collision_actions(self, env, state, rng, base):
        """Joint actions in which two or more agents adjacent to a common free cell all move into it."""
        pos, _, fpos, _, eaten = self._view(state)
        n = env.grid_size
        blocked = {tuple(p) for p in pos} | {tuple(p) for p, e in zip(fpos, eaten) if not e}
        by_cell = {}
        for ag in range(pos.shape[0]):
            for a in range(1, 5):
                r, c = pos[ag][0] + _DELTA[a][0], pos[ag][1] + _DELTA[a][1]
                if 0 <= r < n and 0 <= c < n and (r, c) not in blocked:
                    by_cell.setdefault((r, c), []).append((ag, a))
        out = []
        for movers in by_cell.values():
            if len(movers) >= 2:
                act = base().copy()
                for ag, a in movers:
                    act[ag] = a
                out.append(act)
        rng.shuffle(out)
        return out

    def _adjacent_food(self, state, ag):
        pos, _, fpos, _, eaten = self._view(state)
        return [f for f in range(len(fpos)) if not eaten[f] and abs(pos[ag] - fpos[f]).sum() == 1]

    def probe_sample(self, env, state, obs, rng, k):
        na = env.num_agents
        dt = env.action_spec.dtype
        rnd = lambda: rng.integers(0, 6, size=(na,)).astype(dt)
        noop = lambda: np.zeros(na, dtype=dt)
        acts = []
        for ag in range(na):
            for a in range(6):
                act = rnd()
                act[ag] = a
                acts.append(act)
        # everybody next to food loads (joint loading, reward split), the others random / noop
        near = [ag for ag in range(na) if self._adjacent_food(state, ag)]
        if near:
            for base in (rnd, noop):
                act = base()
                for ag in near:
                    act[ag] = LOAD
                acts.append(act)
        acts.extend(self._collision_actions(env, state, rng, noop)[:3])
        acts.extend(self._collision_actions(env, state, rng, rnd)[:3])
        if len(acts) > k:
            idx = rng.permutation(len(acts))[:k]
            acts = [acts[j] for j in sorted(idx)]
        while len(acts) < k:
            acts.append(rnd())
        return np.stack(acts[:k]).astype(dt)

    # ---- policies -------------------------------------------------------------------------
    def choose(self, policy, env, state, obs, rng, i):
        if policy == "idle":         # every agent plays the no-op: the episode can only end by its time limit
            return np.zeros(np.asarray(obs.action_mask).shape[0], dtype=env.action_spec.dtype)
        if policy == "forage":
            return self._forage(env, state, obs, rng, eager=True)
        if policy == "crowd":
            if rng.random() < 0.35:
                masked = lambda: np.asarray(self.masked_action(env, state, obs, rng))
                col = self._collision_actions(env, state, rng, masked)
                if col:
                    return col[0].astype(env.action_spec.dtype)
            return self._forage(env, state, obs, rng, eager=False)
        return super().choose(policy, env, state, obs, rng, i)

    def _forage(self, env, state, obs, rng, eager):
        """All agents walk towards the uneaten food with the lowest id and load once next to it (eager: as soon
        as they arrive, which yields failed attempts; otherwise mostly when enough levels have gathered)."""
        pos, lvl, fpos, flvl, eaten = self._view(state)
        mask = np.asarray(obs.action_mask)
        na = pos.shape[0]
        act = np.zeros(na, dtype=env.action_spec.dtype)
        left = [f for f in range(len(fpos)) if not eaten[f]]
        if not left:
            return self.random_actions(env, rng, 1)[0]
        tgt = left[0]
        around = sum(int(lvl[ag]) for ag in range(na) if abs(pos[ag] - fpos[tgt]).sum() == 1)
        for ag in range(na):
            if rng.random() < 0.1:
                act[ag] = rng.integers(0, 6)
                continue
            d0 = abs(pos[ag] - fpos[tgt]).sum()
            if d0 == 1:
                if eager or around >= flvl[tgt] or rng.random() < 0.2:
                    act[ag] = LOAD
                continue
            allowed = [a for a in range(1, 5) if mask[ag, a]]
            better = [a for a in allowed if abs(pos[ag] + np.array(_DELTA[a]) - fpos[tgt]).sum() < d0]
            if better and rng.random() < 0.85:
                act[ag] = rng.choice(better)
            elif allowed:
                act[ag] = rng.choice(allowed)
        return act
