"""Adapter of jumanji's Connector (multi-agent routing on a grid).

Configurations: default 10x10 / 10 agents, 4x4 / 3, 3x3 / 2, 6x6 / 3; both shipped generators;
time limits 1, 2, 3, 7, 50.  For `RandomWalkGenerator` the reset state additionally carries the
generator's own solved board (`solved_grid`) as a witness of solvability (C10): the real generator
object is wrapped, its `__call__` result is returned unchanged and `generate_board` is replayed on
the key `__call__` derives for it.
"""
import numpy as np

from harness.envs.base import EnvAdapter

_DELTA = {0: (0, 0), 1: (-1, 0), 2: (0, 1), 3: (1, 0), 4: (0, -1)}


def _witness_generator(inner):
    """Wrap a real RandomWalkGenerator: same State plus the solved board it was derived from."""
    import chex
    import jax

    from jumanji.environments.routing.connector.generator import Generator
    from jumanji.environments.routing.connector.types import State

    @chex.dataclass
    class SolvedState(State):
        solved_grid: chex.Array  # (grid_size, grid_size)

    class Witness(Generator):
        def __init__(self):
            super().__init__(inner.grid_size, inner.num_agents)
            self.inner = inner

        def __call__(self, key):
            state = self.inner(key)
            # RandomWalkGenerator.__call__ : key, board_key = split(key); generate_board(board_key)
            _, board_key = jax.random.split(key)
            solved_grid, _, _ = self.inner.generate_board(board_key)
            return SolvedState(key=state.key, grid=state.grid, step_count=state.step_count,
                               agents=state.agents, solved_grid=solved_grid)

    return Witness()


def _injected_generator(cfg):
    """INJ: every board reachable in the TLC model (all placements of the small grid played with every joint action:
    partial wires, blocked heads, connected agents) handed out as start state number key[1]; step, mask and observation
    code are the real ones."""
    import jax.numpy as jnp

    from harness import inject
    from jumanji.environments.routing.connector.generator import Generator
    from jumanji.environments.routing.connector.types import Agent, State

    states, _ = inject.dump_states(cfg["inject"][0], cfg["inject"][1], limit=None, var=None)
    states = [dict(st["s"], type=st["type"]) for st in states if st["tl"] == 99]
    seen = {}
    for st in states:
        if st["type"] != 2:            # not reached by a LAST timestep: the episode continues from this board
            seen.setdefault(repr((st["grid"], st["agents"])), st)
    tab = inject.thin([seen[k] for k in sorted(seen)], cfg.get("limit"))
    cfg["episodes"] = len(tab)
    n, k = cfg["ctor"]["grid_size"], cfg["ctor"]["num_agents"]
    grids = jnp.asarray(np.array([t["grid"] for t in tab], dtype=np.int32))
    arr = lambda f: jnp.asarray(np.array([t["agents"][f] for t in tab], dtype=np.int32))  # noqa: E731
    ids, starts, targets, positions = arr("id"), arr("start"), arr("target"), arr("position")
    assert grids.shape[1:] == (n, n) and ids.shape[1:] == (k,)

    from jumanji.environments.routing.connector.generator import UniformRandomGenerator

    shipped = UniformRandomGenerator(grid_size=n, num_agents=k)      # template: every field the library's State has

    class InjectedGenerator(Generator):
        def __init__(self):
            super().__init__(grid_size=n, num_agents=k)

        def __call__(self, key):
            j = key[1] % grids.shape[0]
            tpl = shipped(key)
            agents = inject.state_like(tpl.agents, id=ids[j], start=starts[j], target=targets[j], position=positions[j])
            return inject.state_like(tpl, grid=grids[j], step_count=jnp.array(0, jnp.int32), agents=agents, key=key)

    return InjectedGenerator()


INJ_PROPS = ["C03", "C04", "C05", "C06", "C07", "C09", "C12"]


class Adapter(EnvAdapter):
    name = "Connector"
    props = ("C01", "C03", "C04", "C05", "C06", "C07", "C09", "C10", "C11", "C12")
    probe_cap = 64

    # ---- configurations -------------------------------------------------------------------
    def configs(self, tier):
        # time-limit sweep ("for every value passed", C11): one stalling episode per value, no probes
        from harness.envs.base import T_SWEEP_QUICK_FEW, T_SWEEP_THOROUGH_FEW

        ts = T_SWEEP_QUICK_FEW if tier == "quick" else T_SWEEP_THOROUGH_FEW
        return self._base_configs(tier) + [
            dict(id=f"rw5a2_t{t}_sweep", ctor=dict(generator="random_walk", grid_size=5, num_agents=2, time_limit=t), episodes=1,
                 max_steps=t + 2, policies=["stall"], probe_every=0, props=["C01", "C03", "C11", "C12"]) for t in ts]

    def _base_configs(self, tier):
        # solve / greedy seek completion, stall survives to the time limit, collide seeks head-on collisions
        pol_rw = ["solve", "stall", "collide", "masked", "random", "mostly_masked"]
        pol_un = ["greedy", "stall", "collide", "masked", "random", "mostly_masked"]

        def c(id, gen, n, k, t, episodes, max_steps, **kw):
            d = dict(id=id, ctor=dict(generator=gen, grid_size=n, num_agents=k, time_limit=t),
                     episodes=episodes, max_steps=max_steps,
                     policies=pol_rw if gen != "uniform" else pol_un)
            d.update(kw)
            return d

        if tier == "quick":
            return [
                c("default_rw10a10_t50", "default", 10, 10, 50, 3, 56, probe_every=6, probe_cap=64),
                c("rw4a3_t7", "random_walk", 4, 3, 7, 9, 12, probe_cap=36),
                c("rw3a2_t3", "random_walk", 3, 2, 3, 12, 8),
                c("rw3a2_t1", "random_walk", 3, 2, 1, 6, 5),
                c("rw4a3_t2", "random_walk", 4, 3, 2, 6, 6, probe_cap=36),
                c("rw6a3_t50", "random_walk", 6, 3, 50, 6, 56, probe_every=3, probe_cap=30),
                c("un6a3_t50", "uniform", 6, 3, 50, 6, 56, probe_every=3, probe_cap=30),
                c("un3a2_t2", "uniform", 3, 2, 2, 8, 6),
                c("un4a3_t7", "uniform", 4, 3, 7, 9, 12, probe_cap=36),
                c("un10a10_t3", "uniform", 10, 10, 3, 3, 7, probe_cap=64),
                # many resets of a crowded board (C10: agents boxed in at their start cell)
                c("rw3a3_t7", "random_walk", 3, 3, 7, 72, 2, probe_cap=10),
                # more than 42 agents: the grid codes 1 + 3i, 2 + 3i, 3 + 3i pass 127 (and, in the thorough tier, 255)
                c("un14a44_t5", "uniform", 14, 44, 5, 2, 8, probe_cap=8, probe_every=2, policies=["greedy", "masked", "stall"]),
                # crowded boards played to the end well before the time limit: every agent connected or blocked (team sizes at which
                # a float32 mean of ones is not exactly one: 41, 47)
                c("un12a41_t40", "uniform", 12, 41, 40, 1, 16, probe_cap=4, probe_every=8, policies=["masked"]),
                c("un12a47_t40", "uniform", 12, 47, 40, 1, 16, probe_cap=4, probe_every=8, policies=["masked"]),
                # DenseRewardFn with non-default parameters (also given as Python ints)
                dict(c("rw4a3_t7_rw", "random_walk", 4, 3, 7, 6, 12, probe_cap=36), ctor=dict(generator="random_walk", grid_size=4,
                     num_agents=3, time_limit=7, reward=(2.5, -0.25))),
                dict(c("un4a2_t7_rwint", "uniform", 4, 2, 7, 6, 12, probe_cap=25), ctor=dict(generator="uniform", grid_size=4,
                     num_agents=2, time_limit=7, reward=(3, -1))),
                # INJ: boards reachable in the 3x3 two-agent TLC model as start states, all 25 joint actions probed
                c("inj3a2", "all", 3, 2, 50, 0, 1, inject=("MC_Connector", "MC_Connector_quick.cfg"), limit=600, post_terminal=0,
                  policies=["random"], props=INJ_PROPS),
            ]
        out = []
        for gen in ("random_walk", "uniform"):
            g = "rw" if gen == "random_walk" else "un"
            for (n, k) in ((3, 2), (4, 3), (6, 3), (5, 5), (8, 4)):
                for t in (1, 2, 3, 7, 50):
                    episodes = {1: 10, 2: 10, 3: 10, 7: 18, 50: 12}[t]
                    all_joint = k == 3 and n <= 4 and t <= 7          # 125 joint actions, enumerated
                    out.append(c(f"{g}{n}a{k}_t{t}", gen, n, k, t, episodes, min(t, 52) + 4,
                                 probe_cap=125 if all_joint else 48,
                                 probe_every=4 if t == 50 else (1 if n <= 4 else 2)))
            out.append(c(f"{g}10a10_t50", gen, 10, 10, 50, 12, 56, probe_every=4, probe_cap=72))
            out.append(c(f"{g}10a10_t7", gen, 10, 10, 7, 8, 11, probe_cap=72))
            out.append(c(f"{g}3a3_t7", gen, 3, 3, 7, 40, 11, probe_cap=125, probe_every=2))
            out.append(c(f"{g}3a3_t2_resets", gen, 3, 3, 2, 300, 1, probe_cap=6))
        out.append(c("default_rw10a10_t50", "default", 10, 10, 50, 12, 56, probe_every=4, probe_cap=72))
        # a single agent; a board larger than the default with more agents than the default
        out.append(c("rw5a1_t7", "random_walk", 5, 1, 7, 12, 11))
        out.append(c("un5a1_t7", "uniform", 5, 1, 7, 12, 11))
        out.append(c("rw12a12_t7", "random_walk", 12, 12, 7, 4, 11, probe_cap=72, probe_every=2))
        out.append(c("un14a44_t5", "uniform", 14, 44, 5, 4, 8, probe_cap=12, probe_every=2, policies=["greedy", "masked", "stall"]))
        out.append(c("un20a90_t5", "uniform", 20, 90, 5, 2, 8, probe_cap=8, probe_every=3, policies=["greedy", "masked"]))
        for (g, n) in ((12, 41), (12, 47), (13, 55), (14, 61), (16, 82), (16, 83), (17, 94), (17, 97)):
            out.append(c(f"un{g}a{n}_t40", "uniform", g, n, 40, 2, 20, probe_cap=4, probe_every=10, policies=["masked", "greedy"]))
        out.append(dict(c("rw4a3_t7_rw", "random_walk", 4, 3, 7, 18, 12, probe_cap=36), ctor=dict(generator="random_walk", grid_size=4,
                        num_agents=3, time_limit=7, reward=(2.5, -0.25))))
        out.append(dict(c("un4a2_t7_rwint", "uniform", 4, 2, 7, 18, 12, probe_cap=25), ctor=dict(generator="uniform", grid_size=4,
                        num_agents=2, time_limit=7, reward=(3, -1))))
        out.append(dict(c("inj3a2", "all", 3, 2, 50, 0, 1, inject=("MC_Connector", "MC_Connector_quick.cfg"), limit=4000, post_terminal=0,
                          policies=["random"], props=INJ_PROPS)))
        return out

    def make(self, cfg):
        from jumanji.environments import Connector
        from jumanji.environments.routing.connector.generator import RandomWalkGenerator, UniformRandomGenerator

        k = cfg["ctor"]
        if "inject" in cfg:
            return Connector(generator=_injected_generator(cfg), time_limit=k["time_limit"])
        if k["generator"] == "default":
            # the registered default: Connector() builds its own RandomWalkGenerator(10, 10), time_limit 50
            env = Connector()
            if hasattr(env, "_generator"):      # attach the solvability witness when the generator is where it used to be
                env._generator = _witness_generator(env._generator)
            return env
        if k["generator"] == "random_walk":
            gen = _witness_generator(RandomWalkGenerator(grid_size=k["grid_size"], num_agents=k["num_agents"]))
        else:
            gen = UniformRandomGenerator(grid_size=k["grid_size"], num_agents=k["num_agents"])
        if k.get("reward"):         # DenseRewardFn with non-default parameters
            from jumanji.environments.routing.connector.reward import DenseRewardFn

            return Connector(generator=gen, time_limit=k["time_limit"],
                             reward_fn=DenseRewardFn(connected_reward=k["reward"][0], timestep_reward=k["reward"][1]))
        return Connector(generator=gen, time_limit=k["time_limit"])

    def episode_key(self, cfg, ep, seed):
        if "inject" not in cfg:
            return None
        from harness import inject

        return inject.ep_key(ep)

    def cfg_record(self, cfg, env):
        k = cfg["ctor"]
        extra = {}
        if k.get("reward"):
            extra = dict(connected_reward100=int(round(k["reward"][0] * 100)), timestep_reward100=int(round(k["reward"][1] * 100)))
        return dict(extra, grid_size=k["grid_size"], num_agents=k["num_agents"], time_limit=k["time_limit"],
                    generator=k["generator"],
                    witness=k["generator"] not in ("uniform", "all") and (k["generator"] != "default" or hasattr(env, "_generator")))

    # ---- probes ---------------------------------------------------------------------------
    def _collision_actions(self, env, state, rng, base):
        """Joint actions in which every head adjacent to a common free cell moves into it."""
        grid = np.asarray(state.grid)
        pos = np.asarray(state.agents.position)
        tgt = np.asarray(state.agents.target)
        n = grid.shape[0]
        by_cell = {}
        for ag in range(pos.shape[0]):
            if (pos[ag] == tgt[ag]).all():
                continue
            for a in range(1, 5):
                r, c = pos[ag][0] + _DELTA[a][0], pos[ag][1] + _DELTA[a][1]
                if 0 <= r < n and 0 <= c < n and grid[r, c] == 0:
                    by_cell.setdefault((r, c), []).append((ag, a))
        out = []
        for cell, movers in by_cell.items():
            if len(movers) >= 2:
                act = base().copy()
                for ag, a in movers:
                    act[ag] = a
                out.append(act)
        rng.shuffle(out)
        return out

    def probe_sample(self, env, state, obs, rng, k):
        """Each agent's five moves with the others on no-op (even rounds) or random moves (odd rounds),
        every available head-on collision, then random joint actions, up to k actions."""
        na = env.num_agents
        dt = env.action_spec.dtype
        acts = []
        noop = lambda: np.zeros(na, dtype=dt)
        rnd = lambda: rng.integers(0, 5, size=(na,)).astype(dt)
        for ag in range(na):
            others_random = bool(rng.integers(0, 2))
            for a in range(5):
                act = rnd() if others_random else noop()
                act[ag] = a
                acts.append(act)
        acts.extend(self._collision_actions(env, state, rng, noop)[:max(2, k // 8)])
        acts.extend(self._collision_actions(env, state, rng, rnd)[:max(2, k // 8)])
        acts = acts[:max(0, k - 3)]
        while len(acts) < k:
            acts.append(rnd())
        return np.stack(acts[:k]).astype(dt)

    # ---- policies -------------------------------------------------------------------------
    def choose(self, policy, env, state, obs, rng, i):
        if i == 0:
            sg = getattr(state, "solved_grid", None)
            self._solved = None if sg is None else np.asarray(sg)
        if policy == "solve":
            return self._follow_solution(env, state, rng)
        if policy == "greedy":
            return self._greedy(env, state, obs, rng)
        if policy == "stall":  # mostly no-ops, so that the episode lives until the time limit
            a = np.asarray(self.masked_action(env, state, obs, rng)).copy()
            a[rng.random(a.shape[0]) < 0.93] = 0
            return a.astype(env.action_spec.dtype)
        if policy == "collide":
            masked = lambda: np.asarray(self.masked_action(env, state, obs, rng))
            if rng.random() < 0.6:
                col = self._collision_actions(env, state, rng, masked)
                if col:
                    return col[0].astype(env.action_spec.dtype)
            return super().choose("masked", env, state, obs, rng, i)
        return super().choose(policy, env, state, obs, rng, i)

    def _follow_solution(self, env, state, rng):
        """Every unconnected agent advances along its wire of the generator's solved board."""
        grid = np.asarray(state.grid)
        pos = np.asarray(state.agents.position)
        tgt = np.asarray(state.agents.target)
        sol = self._solved
        n = grid.shape[0]
        act = np.zeros(pos.shape[0], dtype=env.action_spec.dtype)
        for ag in range(pos.shape[0]):
            if (pos[ag] == tgt[ag]).all():
                continue
            for a in range(1, 5):
                r, c = pos[ag][0] + _DELTA[a][0], pos[ag][1] + _DELTA[a][1]
                if not (0 <= r < n and 0 <= c < n):
                    continue
                own_wire = sol is not None and sol[r, c] in (1 + 3 * ag, 3 + 3 * ag)
                if own_wire and grid[r, c] in (0, 3 + 3 * ag):
                    act[ag] = a
                    break
        return act

    def _greedy(self, env, state, obs, rng):
        """Masked move that reduces the distance to the target when there is one, else any masked move."""
        mask = np.asarray(obs.action_mask)
        pos = np.asarray(state.agents.position)
        tgt = np.asarray(state.agents.target)
        act = np.zeros(pos.shape[0], dtype=env.action_spec.dtype)
        for ag in range(pos.shape[0]):
            d0 = abs(pos[ag] - tgt[ag]).sum()
            best = [a for a in range(1, 5) if mask[ag, a]
                    and abs(pos[ag] + np.array(_DELTA[a]) - tgt[ag]).sum() < d0]
            allowed = [a for a in range(1, 5) if mask[ag, a]]
            if best and rng.random() < 0.85:
                act[ag] = rng.choice(best)
            elif allowed:
                act[ag] = rng.choice(allowed)
        return act
