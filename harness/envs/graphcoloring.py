"""GraphColoring adapter: configurations (RandomGenerator sizes x edge probabilities, default constructor) and
policies (the implementation's mask, and a rule-following player that never looks at that mask).

ctor keys (interpreted by `make`, exported by `cfg_record`):
  num_nodes, edge_probability   parameters requested from RandomGenerator
  default                       True: GraphColoring() with no argument (documented: 20 nodes, probability 0.8)
"""
import numpy as np

from harness.envs.base import EnvAdapter


def _c(cid, n, p, episodes, default=False, **kw):
    d = dict(id=cid, ctor=dict(num_nodes=n, edge_probability=p, default=default),
             episodes=episodes, max_steps=n + 3)
    d.update(kw)
    return d


POL = ["masked", "rule_greedy", "greedy_masked", "rule_random", "mostly_masked", "random", "inject_illegal"]


class Adapter(EnvAdapter):
    name = "GraphColoring"
    props = ("C01", "C03", "C04", "C05", "C06", "C08", "C09", "C10", "C11", "C12")
    gen_heavy = {'n5_p50': (60, 400), 'n3_p80': (60, 400)}

    def configs(self, tier):
        if tier == "quick":
            return [
                # GraphColoring-v0 defaults through the argument-less constructor; 20 probes on every 2nd state
                _c("n20_p80_default", 20, 0.8, 7, default=True, probe_every=2, policies=POL),
                _c("n8_p50", 8, 0.5, 12, policies=POL),
                _c("n5_p50", 5, 0.5, 18, policies=POL),
                _c("n5_p10", 5, 0.1, 12, policies=POL),
                _c("n3_p80", 3, 0.8, 18, policies=POL),
                # (almost always) the complete graph / no edges at all: every colour is needed / always legal
                _c("n4_p98", 4, 0.98, 6, policies=POL, props=[q for q in self.props if q != "C10"]),
                _c("n4_p2", 4, 0.02, 4, policies=POL, props=[q for q in self.props if q != "C10"]),
            ]
        out = [_c("n20_p80_default", 20, 0.8, 24, default=True, policies=POL)]
        for n, eps in ((3, 120), (5, 90), (8, 60), (20, 18)):
            for p in (0.1, 0.5, 0.8):
                out.append(_c(f"n{n}_p{int(round(p * 100))}", n, p, eps, policies=POL))
        # edge cases: no edges at all, the complete graph, one or two nodes, more nodes than an int8 could index
        # (the generator requires 0 < edge_probability < 1)
        # (the generator requires 0 < edge_probability < 1; with probabilities this extreme the sampled graphs are nearly
        # always the same one, so C10's "depends on the key" is not asked of these configurations)
        no10 = [q for q in self.props if q != "C10"]
        out += [_c("n6_p2", 6, 0.02, 12, policies=POL, props=no10), _c("n6_p98", 6, 0.98, 12, policies=POL, props=no10),
                _c("n1_p50", 1, 0.5, 6, policies=POL, props=no10),                                   # the only graph on one node
                _c("n2_p98", 2, 0.98, 8, policies=POL, props=no10), _c("n30_p30", 30, 0.3, 4, probe_every=3, policies=POL),
                # more than 127 nodes (colour and node indices beyond one signed byte)
                _c("n130_p5", 130, 0.05, 2, probe_every=20, policies=POL)]
        return out

    # ---- the real environment -------------------------------------------------------------
    def make(self, cfg):
        from jumanji.environments.logic.graph_coloring import GraphColoring
        from jumanji.environments.logic.graph_coloring.generator import RandomGenerator

        c = cfg["ctor"]
        if c.get("default"):
            return GraphColoring()
        return GraphColoring(generator=RandomGenerator(num_nodes=c["num_nodes"], edge_probability=c["edge_probability"]))

    def cfg_record(self, cfg, env):
        c = cfg["ctor"]
        # what the harness REQUESTED (for the default constructor: what the documentation announces)
        return {"num_nodes": c["num_nodes"], "edge_pct": int(round(100 * c["edge_probability"])), "generator": "random"}

    # ---- policies --------------------------------------------------------------------------
    @staticmethod
    def _rule_legal(obs):
        """Colours no already-coloured neighbour of the current node has (recomputed, the env's mask is not read)."""
        adj = np.asarray(obs.adj_matrix)
        col = np.asarray(obs.colors)
        cur = int(np.asarray(obs.current_node_index))
        n = len(col)
        nbr = (adj[cur] | adj[:, cur]) & (col >= 0)
        used = set(int(x) for x in col[nbr])
        return [a for a in range(n) if a not in used]

    def choose(self, policy, env, state, obs, rng, i):
        dt = env.action_spec.dtype
        if policy == "greedy_masked":      # lowest colour the implementation's mask offers
            m = np.asarray(obs.action_mask)
            if m.any():
                return np.asarray(int(np.argmax(m)), dtype=dt)
            return self.random_actions(env, rng, 1)[0]
        if policy in ("rule_greedy", "rule_random"):
            ok = self._rule_legal(obs)
            if ok:
                return np.asarray(ok[0] if policy == "rule_greedy" else int(rng.choice(ok)), dtype=dt)
            return self.random_actions(env, rng, 1)[0]
        if policy == "inject_illegal":
            # rule-following play, then (from the 2nd step on, with probability 0.35 per step) a colour the
            # implementation's mask forbids, else one the rule forbids: invalid endings late in an episode
            ok = self._rule_legal(obs)
            if i >= 1 and rng.random() < 0.35:
                m = np.asarray(obs.action_mask)
                bad = [a for a in range(len(m)) if not m[a]] or [a for a in range(len(m)) if a not in ok]
                if bad:
                    return np.asarray(int(rng.choice(bad)), dtype=dt)
            if ok:
                return np.asarray(int(rng.choice(ok)), dtype=dt)
            return self.random_actions(env, rng, 1)[0]
        return super().choose(policy, env, state, obs, rng, i)
