import numpy as np

from harness.envs.base import EnvAdapter

DEFAULTS = dict(num_rows=12, num_cols=12, time_limit=4000)
INJ_PROPS = ["C03", "C04", "C05", "C07", "C09", "C12"]
MOVES = np.array([[-1, 0], [0, 1], [1, 0], [0, -1]])


def _c(id, episodes, max_steps, policies, ctor=None, **kw):
    return dict(id=id, ctor=dict(ctor or {}), episodes=episodes, max_steps=max_steps, policies=policies, **kw)


def hamiltonian_order(rows, cols):
    """A Hamiltonian cycle of the board (one of the two sides must be even): row 0 left to right, the other rows
    zig-zag over columns 1.., back up along column 0.  Following it the snake can never run into itself."""
    if rows % 2:
        return [(r, c) for (c, r) in hamiltonian_order(cols, rows)]
    order = [(0, c) for c in range(cols)]
    for r in range(1, rows):
        order += [(r, c) for c in (range(cols - 1, 0, -1) if r % 2 == 1 else range(1, cols))]
    order += [(r, 0) for r in range(rows - 1, 0, -1)]
    assert len(set(order)) == rows * cols
    return order


class Adapter(EnvAdapter):
    name = "Snake"
    props = ("C01", "C03", "C04", "C05", "C07", "C08", "C09", "C10", "C11", "C12")
    gen_heavy = {'r2c2': (80, 600), 'r2c3': (80, 600), 'r3c5': (40, 300)}

    def configs(self, tier):
        # time-limit sweep ("for every value passed", C11): one surviving episode per value, no probes
        from harness.envs.base import T_SWEEP_QUICK_FEW, T_SWEEP_THOROUGH_FEW

        ts = T_SWEEP_QUICK_FEW if tier == "quick" else T_SWEEP_THOROUGH_FEW
        return self._base_configs(tier) + [_c(f"r3c5_t{t}_sweep", 1, t + 2, ["survive"], dict(num_rows=3, num_cols=5, time_limit=t), probe_every=0, props=["C01", "C03", "C11", "C12"]) for t in ts]

    def _base_configs(self, tier):
        g = lambda r, c, t: dict(num_rows=r, num_cols=c, time_limit=t)  # noqa: E731
        mix = ["seek", "masked", "mostly_masked", "random"]
        if tier == "quick":
            return [
                # the default constructor (12x12, time limit 4000): growth, long chains
                _c("default", 6, 40, ["seek", "random", "mostly_masked", "random", "seek", "random"]),
                # small grids with the default time limit: completed and surrounded snakes are reached
                _c("r2c2", 10, 12, mix, g(2, 2, 4000)),
                _c("r2c3", 10, 25, mix, g(2, 3, 4000)),
                _c("r3c5", 8, 60, ["seek", "seek", "masked", "mostly_masked"], g(3, 5, 4000)),
                # time limits 1, 2, 3, 7 on the non-square grids (survive: masked-in moves avoiding the fruit)
                _c("r3c5_t1", 6, 4, ["survive", "masked", "seek"], g(3, 5, 1)),
                _c("r5c3_t2", 6, 5, ["survive", "masked", "seek"], g(5, 3, 2)),
                _c("r2c3_t3", 6, 6, ["survive", "masked", "seek"], g(2, 3, 3)),
                _c("r5c3_t7", 8, 10, ["survive", "survive", "seek", "mostly_masked"], g(5, 3, 7)),
                # one full-length episode at the default time limit (sparse probes)
                _c("r3c5_t4000_long", 1, 4010, ["survive"], g(3, 5, 4000), probe_every=250,
                   props=["C01", "C03", "C11", "C12", "C07"]),
                # late game on the default board: from 124 cells along a Hamiltonian cycle past 128 cells
                _c("default_late124", 1, 420, ["hamilton"], late=124, probe_every=60, post_terminal=0,
                   props=["C03", "C04", "C05", "C07", "C09", "C12"]),
                # INJ: every snake/fruit configuration of the 2x3 TLC model as a start state, all 4 actions probed
                _c("inj2x3", 0, 1, ["masked"], g(2, 3, 4000), inject=("MC_Snake", "MC_Snake_quick.cfg"), post_terminal=0,
                   limit=1500, props=INJ_PROPS),
            ]
        out = [
            _c("default", 16, 120, ["seek", "seek", "mostly_masked", "random", "masked", "seek"]),
            _c("default_long", 1, 4010, ["survive"], probe_every=200, props=["C01", "C03", "C11", "C12", "C07"]),
            _c("r3c5_t4000_long", 2, 4010, ["survive"], g(3, 5, 4000), probe_every=100,
               props=["C01", "C03", "C11", "C12", "C07"]),
        ]
        for (r, c) in ((2, 2), (2, 3), (3, 5), (5, 3), (3, 3), (4, 4)):
            out.append(_c(f"r{r}c{c}", 40, 40 * r * c // 4 + 20, mix, g(r, c, 4000)))
            for t in (1, 2, 3, 7):
                out.append(_c(f"r{r}c{c}_t{t}", 16, t + 3, ["survive", "survive", "seek", "mostly_masked", "random"],
                              g(r, c, t)))
        out.append(_c("inj2x3", 0, 2, ["masked"], g(2, 3, 4000), inject=("MC_Snake", "MC_Snake_quick.cfg"), post_terminal=0,
                      props=INJ_PROPS))
        out.append(_c("inj3x3", 0, 1, ["masked"], g(3, 3, 4000), inject=("MC_Snake", "MC_Snake_thorough.cfg"), post_terminal=0,
                      limit=8000, props=INJ_PROPS))
        # degenerate and larger boards: one row / one column (the snake can never turn), more than 255 cells
        out.append(_c("r1c6", 30, 12, mix, g(1, 6, 4000)))
        out.append(_c("r5c1", 30, 10, mix, g(5, 1, 4000)))
        out.append(_c("r17c16_t40", 4, 44, ["seek", "survive", "masked"], g(17, 16, 40), probe_every=4))
        # the default board played to the end: from the library's own reset along a Hamiltonian cycle (time limit raised so
        # that the board can be filled: 144 cells, at most 144 steps per fruit), and the late game from 120 cells
        out.append(_c("r12c12_t30000_hamilton", 1, 21000, ["hamilton"], g(12, 12, 30000), probe_every=500,
                      props=["C01", "C03", "C04", "C05", "C07", "C09", "C12"]))
        out.append(_c("default_late120", 3, 3500, ["hamilton"], late=120, probe_every=100, post_terminal=0,
                      props=["C03", "C04", "C05", "C07", "C09", "C12"]))
        out.append(_c("r16c16_late200", 1, 1600, ["hamilton"], g(16, 16, 4000), late=200, probe_every=100, post_terminal=0,
                      props=["C03", "C04", "C05", "C07", "C09", "C12"]))
        for t in (1, 2, 3, 7):
            out.append(_c(f"r12c12_t{t}", 8, t + 3, ["survive", "seek", "random"], g(12, 12, t)))
        return out

    def make(self, cfg):
        from jumanji.environments import Snake

        if "late" in cfg:
            return self._make_late(cfg)
        if "inject" not in cfg:
            return Snake(**cfg["ctor"])
        return self._make_injected(cfg)

    def _make_late(self, cfg):
        """Late game on a large board: the episode starts from a snake of cfg["late"] cells laid along the Hamiltonian
        cycle (arrays of the dtypes of the library's own reset state; every other field is the library's), and is then
        played along the cycle by the real step until the board is full."""
        import jax.numpy as jnp

        from harness import inject
        from jumanji.environments import Snake
        from jumanji.types import restart

        inject.need(Snake, "_get_action_mask", "_state_to_observation")
        rows, cols = cfg["ctor"].get("num_rows", 12), cfg["ctor"].get("num_cols", 12)
        order = hamiltonian_order(rows, cols)
        length = cfg["late"]
        tabs = []
        for ep in range(max(cfg["episodes"], 1)):
            start = (ep * 37) % len(order)
            bs = np.zeros((rows, cols), np.int64)
            for k in range(length):
                bs[order[(start + k) % len(order)]] = k + 1
            head = order[(start + length - 1) % len(order)]
            fruit = order[(start + length + (ep * 11) % (len(order) - length)) % len(order)]
            tabs.append((bs, head, fruit))
        bsa = np.array([t[0] for t in tabs])
        sca = np.array([[*t[1], *t[2]] for t in tabs], np.int32)

        class Late(Snake):
            def reset(self, key):
                tpl, _ = super().reset(key)
                j = key[1] % bsa.shape[0]
                body_state = jnp.asarray(bsa)[j].astype(tpl.body_state.dtype)
                sc = jnp.asarray(sca)[j]
                head = inject.state_like(tpl.head_position, row=sc[0], col=sc[1])
                state = inject.state_like(
                    tpl, body=body_state > 0, body_state=body_state, head_position=head, tail=body_state == 1,
                    fruit_position=inject.state_like(tpl.fruit_position, row=sc[2], col=sc[3]),
                    length=jnp.asarray(length).astype(tpl.length.dtype),
                    action_mask=self._get_action_mask(head, body_state))
                return state, restart(observation=self._state_to_observation(state))

        return Late(**cfg["ctor"])

    def _make_injected(self, cfg):
        """INJ: every snake/fruit configuration reachable in the TLC model (all self-avoiding snakes of the small grid,
        including full boards, surrounded heads and heads next to the tail) as a start state; step, mask and observation
        code are the real ones."""
        import jax.numpy as jnp

        from harness import inject
        from jumanji.environments import Snake
        from jumanji.environments.routing.snake.types import Position, State
        from jumanji.types import restart

        inject.need(Snake, "_get_action_mask", "_state_to_observation")
        states, _ = inject.dump_states(cfg["inject"][0], cfg["inject"][1], limit=None)
        seen = {}
        cells = cfg["ctor"]["num_rows"] * cfg["ctor"]["num_cols"]
        for st in states:
            if st["length"] < cells:      # a full board ends the episode: not a state the episode continues from
                seen.setdefault(repr((st["body_state"], st["fruit_position"])), st)
        tab = inject.thin([seen[k] for k in sorted(seen)], cfg.get("limit"))
        cfg["episodes"] = len(tab)
        bs = jnp.asarray(np.array([t["body_state"] for t in tab], dtype=np.int32))
        sc = jnp.asarray(np.array([[t["head_position"]["row"], t["head_position"]["col"], t["fruit_position"]["row"],
                                    t["fruit_position"]["col"], t["length"]] for t in tab], dtype=np.int32))

        class Injected(Snake):
            def reset(self, key):
                j = key[1] % bs.shape[0]
                body_state = bs[j]
                head = Position(row=sc[j, 0], col=sc[j, 1])     # (a plain NamedTuple of two scalars)
                tpl, _ = super().reset(key)          # the library's own reset state: carries every field State has
                state = inject.state_like(
                    tpl, key=key, body=body_state > 0, body_state=body_state, head_position=head, tail=body_state == 1,
                    fruit_position=inject.state_like(tpl.fruit_position, row=sc[j, 2], col=sc[j, 3]), length=sc[j, 4],
                    step_count=jnp.array(0, jnp.int32), action_mask=self._get_action_mask(head, body_state))
                return state, restart(observation=self._state_to_observation(state))

        return Injected(**cfg["ctor"])

    def episode_key(self, cfg, ep, seed):
        if "inject" not in cfg and "late" not in cfg:
            return None
        from harness import inject

        return inject.ep_key(ep)

    def cfg_record(self, cfg, env):
        rec = dict(DEFAULTS)
        rec.update(cfg["ctor"])
        return rec

    # ---- policies ---------------------------------------------------------------------------
    def choose(self, policy, env, state, obs, rng, i):
        if policy == "hamilton":
            # follow a fixed Hamiltonian cycle of the board: always safe, the snake grows until the board is full
            rows, cols = state.body_state.shape
            order = hamiltonian_order(rows, cols)
            k = order.index((int(state.head_position.row), int(state.head_position.col)))
            nxt = order[(k + 1) % len(order)]
            d = (nxt[0] - order[k][0], nxt[1] - order[k][1])
            return np.asarray([tuple(m) for m in MOVES.tolist()].index(d), dtype=env.action_spec.dtype)
        if policy not in ("seek", "survive"):
            return super().choose(policy, env, state, obs, rng, i)
        dt = env.action_spec.dtype
        mask = np.asarray(obs.action_mask)
        ok = np.flatnonzero(mask)
        if len(ok) == 0:
            return np.asarray(rng.integers(0, 4), dtype=dt)
        head = np.array([int(state.head_position.row), int(state.head_position.col)])
        fruit = np.array([int(state.fruit_position.row), int(state.fruit_position.col)])
        dist = np.array([np.abs(head + MOVES[a] - fruit).sum() for a in ok])
        if policy == "seek":       # go for the fruit most of the time (long snakes, completion, dead ends)
            if rng.random() < 0.15:
                return np.asarray(rng.choice(ok), dtype=dt)
            best = ok[dist == dist.min()]
            return np.asarray(rng.choice(best), dtype=dt)
        # survive: never eat when avoidable, so that the episode lasts until the time limit
        keep = ok[dist > 0]
        return np.asarray(rng.choice(keep if len(keep) else ok), dtype=dt)
