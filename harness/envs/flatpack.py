"""FlatPack adapter: configurations, packed mask projection, tiling witnesses, completion-seeking policy.

Projection (jumanji's own field names):
  s.grid, s.blocks, s.placed_blocks, s.step_count, s.num_blocks : as in State
  s.action_mask / obs.action_mask : packed row-wise, mask[b][k][r] = sum_c 2^c * entry[b, k, r, c]
  reset states (step_count = 0, nothing placed) additionally carry two tiling witnesses found by the search below:
      s.sol_free, s.sol_free_st : placements [k, r, c] per block that exactly tile the grid, any translation
      s.sol_act,  s.sol_act_st  : the same with (r, c) restricted to the coordinates the action space offers
      *_st = 0: the exhaustive search found none, 1: found, 2: node budget exhausted (unknown)
  The witnesses are checked by the TLA+ clauses (never trusted); they also drive the "solution" policy.
"""
import numpy as np

from harness import jsonify
from harness.envs.base import EnvAdapter

NODE_BUDGET = 40_000


def _pack(v):
    a = np.asarray(v).astype(np.int64)
    w = (1 << np.arange(a.shape[-1], dtype=np.int64))
    return (a * w).sum(axis=-1).tolist()


def solve_tiling(blocks, R, C, free_translation, budget=NODE_BUDGET):
    """Exact-cover search (always branch on the empty cell with the fewest candidate placements).
    Returns (status, placements): status 1 with one [k, r, c] per block (k clockwise quarter turns, (r, c) the grid
    cell of the top-left corner of the 3x3 box), 0 if the exhaustive search proves there is none, 2 if the node
    budget ran out.  free_translation: any translation keeping the cells inside the grid; otherwise only the
    corners the action space offers (0..R-3, 0..C-3)."""
    blocks = np.asarray(blocks)
    nb = len(blocks)
    rows, meta = [], []
    rr = range(-2, R) if free_translation else range(0, R - 2)
    cc = range(-2, C) if free_translation else range(0, C - 2)
    for b in range(nb):
        seen = set()
        for k in range(4):
            cells = np.argwhere(np.rot90(blocks[b], -k) != 0)  # k clockwise quarter turns
            for r in rr:
                for c in cc:
                    cs = cells + np.array([r, c])
                    if len(cs) and (cs >= 0).all() and (cs[:, 0] < R).all() and (cs[:, 1] < C).all():
                        idx = tuple(sorted(cs[:, 0] * C + cs[:, 1]))
                        if idx in seen:  # the same cells through another rotation
                            continue
                        seen.add(idx)
                        v = np.zeros(R * C, bool)
                        v[list(idx)] = True
                        rows.append(v)
                        meta.append((b, k, r, c))
    if not rows:
        return 0, []
    P = np.array(rows)
    blk = np.array([m[0] for m in meta])
    occ = np.zeros(R * C, bool)
    choice = [None] * nb
    nodes = [0]

    class Budget(Exception):
        pass

    def rec(alive):
        nodes[0] += 1
        if nodes[0] > budget:
            raise Budget
        if occ.all():
            return all(ch is not None for ch in choice)
        cnt = np.where(occ, 10 ** 9, P[alive].sum(0))
        cell = int(np.argmin(cnt))
        if cnt[cell] == 0:
            return False
        for j in np.flatnonzero(alive & P[:, cell]):
            b = blk[j]
            occ[P[j]] = True
            choice[b] = [int(x) for x in meta[j][1:]]
            if rec(alive & (blk != b) & ~(P[:, P[j]].any(1))):
                return True
            occ[P[j]] = False
            choice[b] = None
        return False

    try:
        ok = rec(np.ones(len(P), bool))
    except Budget:
        return 2, []
    return (1, [list(ch) for ch in choice]) if ok else (0, [])


INJ_PROPS = ["C03", "C04", "C05", "C06", "C07", "C09", "C12"]


class Adapter(EnvAdapter):
    name = "FlatPack"
    props = ("C01", "C03", "C04", "C05", "C06", "C08", "C09", "C10", "C11", "C12")
    probe_cap = 40
    state_overrides = {"action_mask": _pack, "num_blocks": lambda v: int(np.asarray(v)),
                       "step_count": lambda v: int(np.asarray(v))}
    obs_overrides = {"action_mask": _pack}

    def __init__(self):
        self._sol = {}

    # ---- configurations -------------------------------------------------------------------
    def configs(self, tier):
        q = tier == "quick"
        pol = ["solution", "masked", "mostly_masked", "random"]

        def c(id, gen, rb, cb, reward, **kw):
            d = dict(id=id, ctor=dict(generator=gen, num_row_blocks=rb, num_col_blocks=cb, reward=reward),
                     policies=pol, max_steps=rb * cb + 3)
            d.update(kw)
            return d

        if q:
            return [
                # registered default: 5 x 5 blocks, 11 x 11 grid, cell-dense reward (8100 mask entries per state)
                c("r55_cell", "random", 5, 5, "cell", episodes=2, probe_cap=5, policies=["solution", "mostly_masked"], default_ctor=True),
                c("r22_cell", "random", 2, 2, "cell", episodes=8, probe_cap=36),
                c("r22_block", "random", 2, 2, "block", episodes=4, probe_cap=24),
                c("r12_block", "random", 1, 2, "block", episodes=8, probe_cap=24),      # 3 x 5 grid, all 24 actions probed
                c("r21_cell", "random", 2, 1, "cell", episodes=8, probe_cap=24),        # 5 x 3 grid
                c("r32_block", "random", 3, 2, "block", episodes=4, probe_cap=20),      # 7 x 5 grid
                c("r23_cell", "random", 2, 3, "cell", episodes=4, probe_cap=20),        # 5 x 7 grid
                c("toyrot_cell", "toy_rot", 2, 2, "cell", episodes=4, probe_cap=24),
                c("toynorot_block", "toy_norot", 2, 2, "block", episodes=4, probe_cap=24),
                # INJ: every continuing state of the 1 x 2 TLC model (all cut instances, both rotations, any block placed)
                c("inj12_cell", "random", 1, 2, "cell", inject=("MC_FlatPack", "MC_FlatPack_quick.cfg"), episodes=0, max_steps=1,
                  post_terminal=0, probe_cap=24, policies=["masked"], limit=300, props=INJ_PROPS),
                # more than 127 blocks (identifiers up to 132 on the grid), highest identifiers first; no probes
                c("r12_11_block", "random", 12, 11, "block", episodes=1, max_steps=5, probe_every=0, policies=["high_first"],
                  post_terminal=0, props=["C03", "C06", "C07", "C09"]),
            ]
        return [
            c("r55_cell", "random", 5, 5, "cell", episodes=12, probe_cap=12, default_ctor=True),
            c("r55_block", "random", 5, 5, "block", episodes=6, probe_cap=8),
            c("r22_cell", "random", 2, 2, "cell", episodes=80, probe_cap=72),
            c("r22_block", "random", 2, 2, "block", episodes=40, probe_cap=48),
            c("r12_block", "random", 1, 2, "block", episodes=60, probe_cap=24),
            c("r12_cell", "random", 1, 2, "cell", episodes=40, probe_cap=24),
            c("r21_cell", "random", 2, 1, "cell", episodes=60, probe_cap=24),
            c("r11_cell", "random", 1, 1, "cell", episodes=8, probe_cap=4),
            c("r32_block", "random", 3, 2, "block", episodes=40, probe_cap=40),
            c("r23_cell", "random", 2, 3, "cell", episodes=40, probe_cap=40),
            c("r33_cell", "random", 3, 3, "cell", episodes=30, probe_cap=30),
            c("r43_block", "random", 4, 3, "block", episodes=16, probe_cap=20),
            c("r15_cell", "random", 1, 5, "cell", episodes=20, probe_cap=30),
            c("r66_cell", "random", 6, 6, "cell", episodes=3, probe_cap=6, policies=["solution", "mostly_masked"]),
            c("inj12_cell", "random", 1, 2, "cell", inject=("MC_FlatPack", "MC_FlatPack_thorough.cfg"), episodes=0, max_steps=2,
              post_terminal=0, probe_cap=24, policies=["masked"], limit=3000, props=INJ_PROPS),
            c("inj21_block", "random", 2, 1, "block", inject=("MC_FlatPack", "MC_FlatPack_thorough_21.cfg"), episodes=0, max_steps=2,
              post_terminal=0, probe_cap=24, policies=["masked"], limit=3000, props=INJ_PROPS),
            # more than 127 blocks (identifiers up to 132 on the grid), highest identifiers first; no probes
            c("r12_11_block", "random", 12, 11, "block", episodes=1, max_steps=8, probe_every=0, policies=["high_first"],
              post_terminal=0, props=["C03", "C06", "C07", "C09"]),
            c("toyrot_cell", "toy_rot", 2, 2, "cell", episodes=12, probe_cap=72),
            c("toyrot_block", "toy_rot", 2, 2, "block", episodes=8, probe_cap=48),
            c("toynorot_block", "toy_norot", 2, 2, "block", episodes=12, probe_cap=72),
            c("toynorot_cell", "toy_norot", 2, 2, "cell", episodes=8, probe_cap=48),
        ]

    def _make(self, cfg, reward):
        from jumanji.environments.packing.flat_pack.env import FlatPack
        from jumanji.environments.packing.flat_pack.generator import (
            RandomFlatPackGenerator, ToyFlatPackGeneratorNoRotation, ToyFlatPackGeneratorWithRotation)
        from jumanji.environments.packing.flat_pack.reward import BlockDenseReward, CellDenseReward

        ct = cfg["ctor"]
        if ct["generator"] == "random":
            gen = RandomFlatPackGenerator(num_row_blocks=ct["num_row_blocks"], num_col_blocks=ct["num_col_blocks"])
        elif ct["generator"] == "toy_rot":
            gen = ToyFlatPackGeneratorWithRotation()
        else:
            gen = ToyFlatPackGeneratorNoRotation()
        rf = CellDenseReward() if reward == "cell" else BlockDenseReward()
        if "inject" in cfg:
            return self._make_injected(cfg, gen, rf)
        return FlatPack(generator=gen, reward_fn=rf)

    def _make_injected(self, cfg, gen, rf):
        """INJ: every state of the TLC model from which an episode continues (every instance of the cut family, every set of
        blocks already placed anywhere the rules allow) as a start state; mask, observation and step are the real ones."""
        import jax.numpy as jnp

        from harness import inject
        from jumanji.environments.packing.flat_pack.env import FlatPack
        from jumanji.types import restart

        inject.need(FlatPack, "_make_action_mask", "_observation_from_state")
        states, _ = inject.dump_states(cfg["inject"][0], cfg["inject"][1], var=None, limit=None)
        live = {}
        for st in states:
            if not st["over"] and st["allLegal"]:
                live.setdefault(repr(st["s"]), st["s"])
        tab = inject.thin([live[k] for k in sorted(live)], cfg.get("limit"))
        cfg["episodes"] = len(tab)
        grids = np.array([t["grid"] for t in tab])
        blocks = np.array([t["blocks"] for t in tab])
        placed = np.array([t["placed_blocks"] for t in tab])
        steps = np.array([t["step_count"] for t in tab])

        class Injected(FlatPack):
            def reset(self, key):
                tpl, _ = super().reset(key)
                j = key[1] % grids.shape[0]
                like = lambda arr, t: jnp.asarray(arr)[j].astype(jnp.asarray(t).dtype).reshape(jnp.shape(t))      # noqa: E731
                g, b, p = like(grids, tpl.grid), like(blocks, tpl.blocks), like(placed, tpl.placed_blocks)
                state = inject.state_like(tpl, grid=g, blocks=b, placed_blocks=p, step_count=like(steps, tpl.step_count),
                                          action_mask=self._make_action_mask(g, b, p))
                return state, restart(observation=self._observation_from_state(state))

        return Injected(generator=gen, reward_fn=rf)

    def episode_key(self, cfg, ep, seed):
        if "inject" not in cfg:
            return None
        from harness import inject

        return inject.ep_key(ep)

    @staticmethod
    def _other(reward):
        return "block" if reward == "cell" else "cell"

    def make(self, cfg):
        if cfg.get("default_ctor"):       # the documented defaults come from the library's own no-argument constructor
            from jumanji.environments.packing.flat_pack.env import FlatPack

            return FlatPack()
        return self._make(cfg, cfg["ctor"]["reward"])

    def make_alt(self, cfg):
        return self._make(cfg, self._other(cfg["ctor"]["reward"]))

    def cfg_record(self, cfg, env):
        rec = dict(cfg["ctor"])  # what the harness requested
        rec["alt_reward"] = self._other(rec["reward"])
        return rec

    # ---- tiling witnesses -----------------------------------------------------------------
    def solutions(self, state):
        blocks = np.asarray(state.blocks)
        key = blocks.tobytes()
        if key not in self._sol:
            R, C = np.asarray(state.grid).shape
            self._sol[key] = (solve_tiling(blocks, R, C, True), solve_tiling(blocks, R, C, False))
        return self._sol[key]

    def project_state(self, env, state):
        out = jsonify.to_json(state, drop=self.drop_state, overrides=self.state_overrides)
        if int(np.asarray(state.step_count)) == 0 and not np.asarray(state.placed_blocks).any():
            (fst, fsol), (ast, asol) = self.solutions(state)
            out.update(sol_free_st=fst, sol_free=fsol, sol_act_st=ast, sol_act=asol)
        return out

    # ---- probes: half from the implementation's mask, half arbitrary (biased to unplaced blocks) -----------------
    def probe_sample(self, env, state, obs, rng, k):
        m = np.asarray(obs.action_mask)
        dt = env.action_spec.dtype
        legal = np.argwhere(m)
        acts = []
        n_legal = min(len(legal), (k + 1) // 2)
        if n_legal:
            acts += [legal[j] for j in rng.choice(len(legal), size=n_legal, replace=False)]
        unplaced = np.flatnonzero(~np.asarray(state.placed_blocks))
        while len(acts) < k:
            b = rng.choice(unplaced) if (len(unplaced) and rng.random() < 0.7) else rng.integers(0, m.shape[0])
            acts.append(np.array([b, rng.integers(0, 4), rng.integers(0, m.shape[2]), rng.integers(0, m.shape[3])]))
        return np.asarray(acts, dtype=dt).reshape((len(acts), 4))

    # ---- policies -------------------------------------------------------------------------
    def choose(self, policy, env, state, obs, rng, i):
        if policy == "high_first":
            # the blocks with the highest identifiers first, each as close as the mask allows to the previous placement
            # (on top of it, if the mask allowed that)
            m = np.asarray(obs.action_mask)
            legal_blocks = np.flatnonzero(m.reshape(m.shape[0], -1).any(axis=1))
            if len(legal_blocks) == 0:
                return self.random_actions(env, rng, 1)[0]
            ids = np.asarray(state.blocks).reshape(m.shape[0], -1).max(axis=1)     # the identifier a block writes on the grid
            b = int(legal_blocks[np.argmax(ids[legal_blocks])])
            opts = np.argwhere(m[b])
            if i == 0:
                self._last_rc = opts[rng.integers(0, len(opts))][1:]
            d = np.abs(opts[:, 1:] - np.asarray(self._last_rc)).sum(axis=1)
            k, r, c = opts[int(np.argmin(d))]
            self._last_rc = (r, c)
            return np.asarray([b, k, r, c], dtype=env.action_spec.dtype)
        if policy == "solution":
            # follow a witness: the action-space tiling if there is one, else the expressible part of the free tiling
            (fst, fsol), (ast, asol) = self.solutions(state)
            sol = asol if ast == 1 else (fsol if fst == 1 else [])
            m = np.asarray(obs.action_mask)
            placed = np.asarray(state.placed_blocks)
            cands = [(b, k, r, c) for b, (k, r, c) in enumerate(sol)
                     if not placed[b] and 0 <= r < m.shape[2] and 0 <= c < m.shape[3] and m[b, k, r, c]]
            if cands:
                return np.asarray(cands[rng.integers(0, len(cands))], dtype=env.action_spec.dtype)
            policy = "masked"
        return super().choose(policy, env, state, obs, rng, i)
