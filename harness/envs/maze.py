"""Adapter of jumanji's Maze: configurations (shipped generators, fixed layouts, time limits) and policies.

ctor keys (interpreted by `make`, exported by `cfg_record`):
  gen         "default" (Maze() builds its own RandomGenerator 10x10), "random", "toy", "layout"
  rows, cols  size requested from RandomGenerator
  layout      for gen="layout": list of strings, '#' wall, '.' free, 'A' agent, 'T' target
  time_limit  int or None (None = the documented default num_rows * num_cols)
"""
from collections import deque

import numpy as np

from harness.envs.base import EnvAdapter

MOVES = ((-1, 0), (0, 1), (1, 0), (0, -1))  # up, right, down, left (documentation order)

ISLAND = ["A#..",
          "##.#",
          "...T"]          # the agent starts enclosed by walls: no legal move at all
ROOM = ["....",
        ".A..",
        "...T"]            # no walls: only the border blocks
DEADEND = ["A.#T.",
           "#.#.#",
           "....."]


def _layout_generator(layout):
    import jax.numpy as jnp

    from jumanji.environments.routing.maze.generator import Generator
    from jumanji.environments.routing.maze.types import Position, State

    rows, cols = len(layout), len(layout[0])
    walls = np.array([[ch == "#" for ch in line] for line in layout], dtype=bool)
    (ar, ac), = [(r, c) for r in range(rows) for c in range(cols) if layout[r][c] == "A"]
    (tr, tc), = [(r, c) for r in range(rows) for c in range(cols) if layout[r][c] == "T"]

    class LayoutGenerator(Generator):
        def __init__(self):
            super().__init__(num_rows=rows, num_cols=cols)

        def __call__(self, key):
            from harness import inject
            from jumanji.environments.routing.maze.generator import RandomGenerator

            tpl = RandomGenerator(num_rows=rows, num_cols=cols)(key)       # the library's own State, then our fields
            return inject.state_like(
                tpl, agent_position=inject.state_like(tpl.agent_position, row=jnp.array(ar, jnp.int32), col=jnp.array(ac, jnp.int32)),
                target_position=inject.state_like(tpl.target_position, row=jnp.array(tr, jnp.int32), col=jnp.array(tc, jnp.int32)),
                walls=jnp.asarray(walls), action_mask=None, key=key, step_count=jnp.array(0, jnp.int32))

    return LayoutGenerator()


def _injected_generator(cfg):
    """INJ: the start states are the Init states of the TLC model (EVERY wall layout of the small grid, agent and target
    on any two distinct free cells - connected or not), handed out by a table-driven generator: state number key[1]."""
    import jax.numpy as jnp

    from harness import inject
    from jumanji.environments.routing.maze.generator import Generator
    from jumanji.environments.routing.maze.types import Position, State

    states, _ = inject.dump_states(cfg["inject"][0], cfg["inject"][1], limit=None)
    seen = {}
    for s in states:
        if s["step_count"] != 0:
            continue
        seen.setdefault(repr((s["agent_position"], s["target_position"], s["walls"])), s)
    init = [seen[k] for k in sorted(seen)]
    init = inject.thin(init, cfg.get("limit"))
    cfg["episodes"] = len(init)
    rows, cols = len(init[0]["walls"]), len(init[0]["walls"][0])
    assert (rows, cols) == (cfg["ctor"]["rows"], cfg["ctor"]["cols"])
    walls = jnp.asarray(np.array([s["walls"] for s in init], dtype=bool))
    pos = jnp.asarray(np.array([[s["agent_position"]["row"], s["agent_position"]["col"],
                                 s["target_position"]["row"], s["target_position"]["col"]] for s in init], dtype=np.int32))

    class InjectedGenerator(Generator):
        def __init__(self):
            super().__init__(num_rows=rows, num_cols=cols)

        def __call__(self, key):
            from jumanji.environments.routing.maze.generator import RandomGenerator

            j = key[1] % walls.shape[0]
            tpl = RandomGenerator(num_rows=rows, num_cols=cols)(key)
            return inject.state_like(
                tpl, agent_position=inject.state_like(tpl.agent_position, row=pos[j, 0], col=pos[j, 1]),
                target_position=inject.state_like(tpl.target_position, row=pos[j, 2], col=pos[j, 3]),
                walls=walls[j], action_mask=None, key=key, step_count=jnp.array(0, jnp.int32))

    return InjectedGenerator()


def _c(cid, gen, rows=None, cols=None, tl=None, layout=None, **kw):
    ctor = dict(gen=gen, time_limit=tl)
    if rows is not None:
        ctor.update(rows=rows, cols=cols)
    if layout is not None:
        ctor["layout"] = layout
    return dict(id=cid, ctor=ctor, **kw)


INJ_PROPS = ["C03", "C04", "C05", "C07", "C09", "C10", "C12"]
ALL_POL = ["survive", "seek", "random", "seek_noisy", "mostly_masked"]


class Adapter(EnvAdapter):
    name = "Maze"
    props = ("C01", "C03", "C04", "C05", "C07", "C09", "C10", "C11", "C12")
    gen_heavy = {'r2x2_t3': (60, 400), 'r4x5_t1': (60, 400), 'r3x7_t7': (40, 200)}

    def configs(self, tier):
        # time-limit sweep ("for every value passed", C11): one surviving episode per value, no probes
        from harness.envs.base import T_SWEEP_QUICK_FEW, T_SWEEP_THOROUGH_FEW

        ts = T_SWEEP_QUICK_FEW if tier == "quick" else T_SWEEP_THOROUGH_FEW
        return self._base_configs(tier) + [_c(f"r4x5_t{t}_sweep", "random", 4, 5, t, episodes=1, max_steps=t + 2, policies=["survive"], probe_every=0, props=["C01", "C03", "C11", "C12"]) for t in ts]

    def _base_configs(self, tier):
        if tier == "quick":
            return [
                _c("default10", "default", episodes=4, max_steps=104,
                   policies=["survive", "seek", "seek_noisy", "random"]),
                _c("r3x7_t7", "random", 3, 7, 7, episodes=8, max_steps=12, policies=ALL_POL),
                _c("r7x3_tnone", "random", 7, 3, None, episodes=5, max_steps=25, policies=ALL_POL),
                _c("r2x2_t3", "random", 2, 2, 3, episodes=8, max_steps=6, policies=ALL_POL),
                _c("r4x5_t1", "random", 4, 5, 1, episodes=8, max_steps=4, policies=ALL_POL),
                _c("r5x4_t2", "random", 5, 4, 2, episodes=8, max_steps=5, policies=ALL_POL),
                _c("r1x6_t3", "random", 1, 6, 3, episodes=6, max_steps=6, policies=ALL_POL),
                _c("toy_tnone", "toy", tl=None, episodes=4, max_steps=29,
                   policies=["survive", "seek", "seek_noisy", "random"]),
                _c("toy_t7", "toy", tl=7, episodes=4, max_steps=10, policies=["survive", "seek", "random", "seek_noisy"]),
                _c("island_t3", "layout", tl=3, layout=ISLAND, episodes=2, max_steps=4, policies=["random"]),
                _c("room_tnone", "layout", tl=None, layout=ROOM, episodes=4, max_steps=15,
                   policies=["survive", "random", "seek_noisy", "seek"]),
                _c("deadend_t7", "layout", tl=7, layout=DEADEND, episodes=4, max_steps=10,
                   policies=["survive", "seek", "random", "seek_noisy"]),
                # INJ: every Init state of the 2x3 TLC model (all 64 wall layouts x agent/target placements), 4 probes each
                _c("inj2x3_t2", "inject", 2, 3, 2, inject=("MC_Maze", "MC_Maze_quick.cfg"), max_steps=2, post_terminal=0,
                   policies=["random"], props=INJ_PROPS),
            ]
        out = [_c("default10", "default", episodes=24, max_steps=104, policies=ALL_POL)]
        shapes = [(2, 2), (2, 3), (3, 2), (3, 3), (3, 7), (7, 3), (4, 5), (5, 5), (6, 9), (8, 8), (10, 10), (12, 9),
                  (1, 6), (6, 1), (1, 2)]
        limits = [1, 2, 3, 7, None]
        for k, (r, c) in enumerate(shapes):
            for j in range(2):  # two of the five limits per shape, rotating; every limit meets every parity of shape
                tl = limits[(k + 2 * j + k // 5) % 5]
                out.append(_c(f"r{r}x{c}_t{'none' if tl is None else tl}", "random", r, c, tl,
                              episodes=30 if r * c <= 30 else 12,
                              max_steps=(tl if tl is not None else r * c) + 3, policies=ALL_POL))
        for tl in limits:
            out.append(_c(f"toy_t{'none' if tl is None else tl}", "toy", tl=tl, episodes=10,
                          max_steps=(tl or 25) + 3, policies=ALL_POL))
        for nm, lay in (("island", ISLAND), ("room", ROOM), ("deadend", DEADEND)):
            for tl in (2, 7, None):
                out.append(_c(f"{nm}_t{'none' if tl is None else tl}", "layout", tl=tl, layout=lay, episodes=10,
                              max_steps=(tl or len(lay) * len(lay[0])) + 3, policies=ALL_POL))
        # more than 127 cells
        out.append(_c("r13x11_t40", "random", 13, 11, 40, episodes=6, max_steps=43, policies=ALL_POL, probe_every=3))
        out.append(_c("inj2x3_t2", "inject", 2, 3, 2, inject=("MC_Maze", "MC_Maze_quick.cfg"), max_steps=2, post_terminal=0,
                      policies=["random"], props=INJ_PROPS))
        out.append(_c("inj3x3_tnone", "inject", 3, 3, None, inject=("MC_Maze", "MC_Maze_thorough.cfg"), limit=4000, max_steps=1,
                      post_terminal=0, policies=["random"], props=INJ_PROPS))
        seen = set()
        return [c for c in out if not (c["id"] in seen or seen.add(c["id"]))]

    # ---- the real environment ------------------------------------------------------------------
    def make(self, cfg):
        from jumanji.environments import Maze
        from jumanji.environments.routing.maze.generator import RandomGenerator, ToyGenerator

        ct = cfg["ctor"]
        g = ct["gen"]
        if g == "default":
            return Maze() if ct["time_limit"] is None else Maze(time_limit=ct["time_limit"])
        if g == "random":
            gen = RandomGenerator(num_rows=ct["rows"], num_cols=ct["cols"])
        elif g == "toy":
            gen = ToyGenerator()
        elif g == "inject":
            gen = _injected_generator(cfg)
        else:
            gen = _layout_generator(ct["layout"])
        return Maze(generator=gen, time_limit=ct["time_limit"])

    def cfg_record(self, cfg, env):
        """What the harness REQUESTED (documented defaults for the parts it left to the library)."""
        ct = cfg["ctor"]
        g = ct["gen"]
        if g == "default":
            rows, cols = 10, 10           # "Defaults to RandomGenerator with num_rows=10 and num_cols=10"
        elif g == "toy":
            rows, cols = 5, 5             # "a hardcoded 5x5 toy maze"
        elif g == "layout":
            rows, cols = len(ct["layout"]), len(ct["layout"][0])
        else:
            rows, cols = ct["rows"], ct["cols"]
        tl = ct["time_limit"]
        return dict(num_rows=rows, num_cols=cols, time_limit_given=tl is not None, time_limit=0 if tl is None else tl,
                    generator="random" if g == "default" else "layout" if g == "inject" else g)

    def episode_key(self, cfg, ep, seed):
        if "inject" not in cfg:
            return None
        import jax.numpy as jnp

        return jnp.asarray([0, ep], dtype=jnp.uint32)

    # ---- policies ------------------------------------------------------------------------------
    @staticmethod
    def _view(state):
        walls = np.asarray(state.walls)
        ag = (int(state.agent_position.row), int(state.agent_position.col))
        tg = (int(state.target_position.row), int(state.target_position.col))
        return walls, ag, tg

    @staticmethod
    def _free(walls, rc):
        return 0 <= rc[0] < walls.shape[0] and 0 <= rc[1] < walls.shape[1] and not walls[rc]

    def _toward(self, walls, ag, tg):
        """First action of a shortest path ag -> tg (BFS from the target), or None."""
        dist = {tg: 0}
        dq = deque([tg])
        while dq:
            p = dq.popleft()
            for d in MOVES:
                q = (p[0] + d[0], p[1] + d[1])
                if self._free(walls, q) and q not in dist:
                    dist[q] = dist[p] + 1
                    dq.append(q)
        best = None
        for a, d in enumerate(MOVES):
            q = (ag[0] + d[0], ag[1] + d[1])
            if q in dist and (best is None or dist[q] < best[0]):
                best = (dist[q], a)
        return None if best is None else best[1]

    def choose(self, policy, env, state, obs, rng, i):
        dt = env.action_spec.dtype
        if policy == "survive":      # never step on the target: the episode must run into its time limit
            walls, ag, tg = self._view(state)
            ok, blocked = [], []
            for a, d in enumerate(MOVES):
                q = (ag[0] + d[0], ag[1] + d[1])
                if not self._free(walls, q):
                    blocked.append(a)
                elif q != tg:
                    ok.append(a)
            pool = ok if (ok and (not blocked or rng.random() < 0.8)) else (blocked or ok or [0])
            return np.asarray(rng.choice(pool), dtype=dt)
        if policy in ("seek", "seek_noisy"):
            if policy == "seek_noisy" and rng.random() < 0.3:
                return self.random_actions(env, rng, 1)[0]
            a = self._toward(*self._view(state))
            return np.asarray(a, dtype=dt) if a is not None else self.random_actions(env, rng, 1)[0]
        return super().choose(policy, env, state, obs, rng, i)
