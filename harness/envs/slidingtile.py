"""Adapter of jumanji's SlidingTilePuzzle: configurations (grid sizes 2..5, time limits, both reward functions,
random-walk lengths), state-injection generators for the exhaustive part of C17, and policies.

ctor keys (interpreted by `make`, exported by `cfg_record`):
  gen         "default" (SlidingTilePuzzle() with no arguments: documented 5x5 random walk, dense, limit 500),
              "random_walk" (the shipped RandomWalkGenerator),
              "enum"     (injection: the k-th arrangement of 0..n*n-1 in lexicographic order, solvable or not; k is
                          derived from the reset key so that the episodes of seeds 0..3 enumerate the space
                          systematically, see `_enum_generator`),
              "randperm" (injection: a uniformly random arrangement drawn from the reset key)
  n           grid size
  moves       num_random_moves of the RandomWalkGenerator
  time_limit  int, or None = not passed (documented default 500)
  reward      "dense" | "sparse"
The environment stepped in lock-step (`make_alt`) is the same puzzle with the OTHER reward function.
"""
import math
from collections import deque

import numpy as np

from harness.envs.base import EnvAdapter

MOVES = ((-1, 0), (0, 1), (1, 0), (0, -1))  # up, right, down, left of the empty tile (documentation order)
ENUM_SEEDS = (0, 1, 2, 3)                    # recorder seeds whose episode keys are recognised by the enum generator


# ------------------------------------------------------------------------------------------------
# injection generators (follow the Generator interface of the environment)
# ------------------------------------------------------------------------------------------------
def _kth_permutation(k, m):
    """jnp: the k-th (0-based, lexicographic) permutation of 0..m-1, k < m! (Lehmer decoding, unrolled)."""
    import jax.numpy as jnp

    remaining = jnp.arange(m, dtype=jnp.int32)
    out = []
    for i in range(m):
        f = math.factorial(m - 1 - i)
        d = (k // f) % (m - i)
        out.append(remaining[d])
        if m - i > 1:
            ar = jnp.arange(m - i - 1)
            remaining = jnp.where(ar < d, remaining[:-1], remaining[1:])
    return jnp.stack(out)


def _state_of(flat, n, key):
    import jax.numpy as jnp

    from jumanji.environments.logic.sliding_tile_puzzle.types import State

    puzzle = flat.reshape((n, n)).astype(jnp.int32)
    at = jnp.argmin(flat)  # the cell holding tile 0
    pos = jnp.stack([at // n, at % n]).astype(jnp.int32)
    from harness import inject
    from jumanji.environments.logic.sliding_tile_puzzle.generator import RandomWalkGenerator

    tpl = RandomWalkGenerator(grid_size=n, num_random_moves=0)(key)       # the library's own State, then our fields
    return inject.state_like(tpl, puzzle=puzzle, empty_tile_position=pos, key=key, step_count=jnp.zeros((), jnp.int32))


def _enum_generator(n, episodes, stride):
    """reset(PRNGKey(seed*100003 + ep*17 + 1)) hands the generator split(key)[1]; the table below maps those
    sub-keys (seeds ENUM_SEEDS, ep < episodes) back to j = seed*episodes + ep, and the instance returned is
    arrangement number (j * stride) mod (n*n)!.  Unknown keys fall back to a uniformly random index."""
    import jax
    import jax.numpy as jnp

    from jumanji.environments.logic.sliding_tile_puzzle.generator import Generator

    m = n * n
    total = math.factorial(m)
    raw = np.array([s * 100003 + ep * 17 + 1 for s in ENUM_SEEDS for ep in range(episodes)], dtype=np.int64)
    js = np.array([s * episodes + ep for s in ENUM_SEEDS for ep in range(episodes)], dtype=np.int64)
    subkeys = np.asarray(jax.vmap(lambda x: jax.random.split(jax.random.PRNGKey(x))[1])(jnp.asarray(raw)))
    ks = ((js * stride) % total).astype(np.int32)

    class EnumGenerator(Generator):
        def __init__(self):
            super().__init__(grid_size=n)
            self.table = jnp.asarray(subkeys)
            self.ks = jnp.asarray(ks)

        def __call__(self, key):
            kd = jnp.asarray(key).reshape(-1)
            match = jnp.all(self.table == kd[None, :], axis=1)
            k_tab = self.ks[jnp.argmax(match)]
            k_rnd = jax.random.randint(key, (), 0, total, dtype=jnp.int32)
            k = jnp.where(jnp.any(match), k_tab, k_rnd)
            return _state_of(_kth_permutation(k, m), n, key)

    return EnumGenerator()


def _randperm_generator(n):
    import jax
    import jax.numpy as jnp

    from jumanji.environments.logic.sliding_tile_puzzle.generator import Generator

    class RandPermGenerator(Generator):
        def __init__(self):
            super().__init__(grid_size=n)

        def __call__(self, key):
            key, sub = jax.random.split(key)
            return _state_of(jax.random.permutation(sub, jnp.arange(n * n, dtype=jnp.int32)), n, key)

    return RandPermGenerator()


# ------------------------------------------------------------------------------------------------
# a small solver for the completion-seeking policies (numpy / pure python, independent of jumanji)
# ------------------------------------------------------------------------------------------------
_DIST = {}


def _goal(n):
    return tuple(list(range(1, n * n)) + [0])


def _neighbours(t, n):
    b = t.index(0)
    r, c = divmod(b, n)
    for a, (dr, dc) in enumerate(MOVES):
        rr, cc = r + dr, c + dc
        if 0 <= rr < n and 0 <= cc < n:
            q = list(t)
            q[b], q[rr * n + cc] = q[rr * n + cc], 0
            yield a, tuple(q)


def _dist_table(n):
    """distance to the goal of every solvable arrangement (n <= 3)."""
    if n not in _DIST:
        g = _goal(n)
        dist = {g: 0}
        dq = deque([g])
        while dq:
            t = dq.popleft()
            for _, q in _neighbours(t, n):
                if q not in dist:
                    dist[q] = dist[t] + 1
                    dq.append(q)
        _DIST[n] = dist
    return _DIST[n]


def _manhattan(t, n):
    h = 0
    for idx, v in enumerate(t):
        if v:
            h += abs(idx // n - (v - 1) // n) + abs(idx % n - (v - 1) % n)
    return h


def _ida_first_move(t, n, max_depth=16):
    """first action of a shortest solution of length <= max_depth (iterative deepening with the taxicab bound)."""
    g = _goal(n)
    if t == g:
        return None

    def dfs(cur, depth, bound, prev):
        if cur == g:
            return True
        if depth + _manhattan(cur, n) > bound:
            return False
        for a, q in _neighbours(cur, n):
            if prev is not None and a == (prev + 2) % 4:
                continue
            if dfs(q, depth + 1, bound, a):
                return True
        return False

    for bound in range(_manhattan(t, n), max_depth + 1):
        for a, q in _neighbours(t, n):
            if dfs(q, 1, bound, a):
                return a
    return None


def _toward_goal(puzzle):
    n = puzzle.shape[0]
    t = tuple(int(x) for x in puzzle.reshape(-1))
    if n <= 3:
        dist = _dist_table(n)
        if t not in dist or dist[t] == 0:
            return None
        best = min((dist[q], a) for a, q in _neighbours(t, n) if q in dist)
        return best[1]
    return _ida_first_move(t, n)


# ------------------------------------------------------------------------------------------------
def _c(cid, gen, n, moves=None, tl=500, reward="dense", **kw):
    ctor = dict(gen=gen, n=n, time_limit=tl, reward=reward)
    if moves is not None:
        ctor["moves"] = moves
    return dict(id=cid, ctor=ctor, **kw)


SOLVE = ["solve", "solve_noisy", "random", "mostly_masked"]
LIMIT = ["survive", "random", "solve_noisy", "survive"]
INJ_PROPS = ["C01", "C03", "C04", "C05", "C09", "C12", "C17"]


class Adapter(EnvAdapter):
    name = "SlidingTile"
    props = ("C01", "C03", "C04", "C05", "C08", "C09", "C10", "C11", "C12", "C17")
    gen_heavy = {'n2_dense': (60, 400), 'n3_dense': (40, 300), 'n4_dense_k8': (30, 200)}

    def configs(self, tier):
        # time-limit sweep ("for every value passed", C11): one surviving episode per value, no probes
        from harness.envs.base import T_SWEEP_QUICK_FEW, T_SWEEP_THOROUGH_FEW

        ts = T_SWEEP_QUICK_FEW if tier == "quick" else T_SWEEP_THOROUGH_FEW
        return self._base_configs(tier) + [_c(f"n3_t{t}_sweep", "random_walk", 3, 20, tl=t, episodes=1, max_steps=t + 2, policies=["survive"], probe_every=0, props=["C01", "C03", "C11", "C12"]) for t in ts]

    def _base_configs(self, tier):
        if tier == "quick":
            return [
                _c("default5", "default", 5, episodes=2, max_steps=24, policies=["random", "mostly_masked"]),
                _c("n3_dense", "random_walk", 3, 20, episodes=6, max_steps=34, policies=SOLVE),
                _c("n3_sparse", "random_walk", 3, 15, reward="sparse", episodes=4, max_steps=30, policies=SOLVE),
                _c("n2_dense", "random_walk", 2, 7, episodes=8, max_steps=12, policies=SOLVE),
                _c("n2_sparse", "random_walk", 2, 4, reward="sparse", episodes=6, max_steps=12, policies=SOLVE),
                _c("n4_dense_k8", "random_walk", 4, 8, episodes=4, max_steps=16, policies=SOLVE),
                _c("n5_sparse_k6", "random_walk", 5, 6, reward="sparse", episodes=3, max_steps=12,
                   policies=["solve", "solve_noisy", "random"]),
                # large boards a few moves away from the goal, solved (the completion test on 49 / 121 cells)
                _c("n11_dense_k3", "random_walk", 11, 3, episodes=3, max_steps=8, policies=["solve", "solve_noisy", "solve"],
                   probe_every=2, pure_events=True),
                _c("n7_sparse_k4", "random_walk", 7, 4, reward="sparse", episodes=3, max_steps=8, policies=["solve", "solve_noisy", "solve"],
                   probe_every=2),
                _c("n3_k0", "random_walk", 3, 0, episodes=4, max_steps=6, policies=["masked", "random", "solve_noisy", "random"]),
                _c("n2_k1_t7", "random_walk", 2, 1, tl=7, episodes=6, max_steps=10, policies=LIMIT),
                _c("n3_t1", "random_walk", 3, 9, tl=1, episodes=8, max_steps=4, policies=LIMIT),
                _c("n3_t2_sparse", "random_walk", 3, 2, tl=2, reward="sparse", episodes=8, max_steps=5, policies=LIMIT),
                _c("n2_t3", "random_walk", 2, 6, tl=3, episodes=8, max_steps=6, policies=LIMIT),
                _c("n4_t7", "random_walk", 4, 30, tl=7, episodes=5, max_steps=10, policies=LIMIT),
                _c("n5_t3", "random_walk", 5, 50, tl=3, episodes=4, max_steps=6, policies=LIMIT),
                _c("n2_tdefault", "random_walk", 2, 9, tl=None, episodes=1, max_steps=503, probe_every=25,
                   policies=["survive"]),
                # state injection: the ENTIRE 2x2 arrangement space (24 boards) x 4 actions, a sample of the 3x3 space
                _c("inject2x2", "enum", 2, episodes=24, max_steps=2, stride=1, policies=["masked"], props=INJ_PROPS),
                _c("inject3x3", "enum", 3, episodes=110, max_steps=2, stride=3299, policies=["masked"], props=INJ_PROPS),
                _c("inject2x2_sparse_t2", "enum", 2, tl=2, reward="sparse", episodes=24, max_steps=3, stride=1,
                   policies=["masked", "random"], props=INJ_PROPS),
                _c("randperm4", "randperm", 4, episodes=16, max_steps=2, policies=["masked"], props=INJ_PROPS),
                _c("randperm5", "randperm", 5, episodes=10, max_steps=2, policies=["masked"], props=INJ_PROPS),
            ]
        out = [_c("default5", "default", 5, episodes=3, max_steps=505, probe_every=10,
                  policies=["survive", "random", "mostly_masked"])]
        for n in (2, 3, 4, 5):
            for rw in ("dense", "sparse"):
                k = {2: 9, 3: 24, 4: 10, 5: 8}[n] + (1 if rw == "sparse" else 0)
                out.append(_c(f"n{n}_{rw}", "random_walk", n, k, reward=rw, episodes=30 if n <= 3 else 16,
                              max_steps=k + 14, policies=SOLVE))
                for tl in (1, 2, 3, 7):
                    out.append(_c(f"n{n}_{rw}_t{tl}", "random_walk", n, 3 * n + tl, tl=tl, reward=rw, episodes=16,
                                  max_steps=tl + 3, policies=LIMIT))
            out.append(_c(f"n{n}_k0", "random_walk", n, 0, episodes=8, max_steps=6,
                          policies=["masked", "random", "solve_noisy", "random"]))
            out.append(_c(f"n{n}_k1_t7", "random_walk", n, 1, tl=7, episodes=10, max_steps=10, policies=LIMIT))
            out.append(_c(f"n{n}_k200", "random_walk", n, 200, episodes=10, max_steps=40,
                          policies=["solve", "random", "mostly_masked"] if n <= 3 else ["random", "mostly_masked"]))
        for n in (6, 7, 8, 9, 10, 11, 12, 13, 16, 22):         # every size up to 13, then 256 and 484 cells: solved from 3-4 moves away
            out.append(_c(f"n{n}_{'dense' if n % 2 else 'sparse'}_k{3 + n % 2}", "random_walk", n, 3 + n % 2,
                          reward="dense" if n % 2 else "sparse", episodes=4, max_steps=8,
                          policies=["solve", "solve_noisy", "solve", "random"], probe_every=2, pure_events=(n in (11, 22))))
        out.append(_c("n6_dense_k12", "random_walk", 6, 12, episodes=6, max_steps=20, policies=["solve_noisy", "random", "mostly_masked"]))
        out.append(_c("n7_sparse_t7", "random_walk", 7, 40, tl=7, reward="sparse", episodes=6, max_steps=10, policies=LIMIT))
        out.append(_c("n3_dense_t500", "random_walk", 3, 31, tl=500, episodes=3, max_steps=503, probe_every=7,
                      policies=["survive"]))
        out.append(_c("n2_tdefault", "random_walk", 2, 9, tl=None, episodes=3, max_steps=503, probe_every=11,
                      policies=["survive"]))
        out += [
            _c("inject2x2", "enum", 2, episodes=24, max_steps=2, stride=1, policies=["masked"], props=INJ_PROPS),
            _c("inject2x2_sparse_t2", "enum", 2, tl=2, reward="sparse", episodes=24, max_steps=3, stride=1,
               policies=["masked", "random"], props=INJ_PROPS),
            _c("inject3x3", "enum", 3, episodes=3000, max_steps=2, stride=121, policies=["masked"], props=INJ_PROPS),
            _c("inject3x3_sparse", "enum", 3, reward="sparse", episodes=1500, max_steps=2, stride=60899,
               policies=["masked", "random"], props=INJ_PROPS),
            _c("randperm4", "randperm", 4, episodes=300, max_steps=2, policies=["masked"], props=INJ_PROPS),
            _c("randperm5", "randperm", 5, episodes=200, max_steps=2, policies=["masked"], props=INJ_PROPS),
        ]
        return out

    # ---- the real environment ------------------------------------------------------------------
    def _generator(self, cfg):
        from jumanji.environments.logic.sliding_tile_puzzle.generator import RandomWalkGenerator

        ct = cfg["ctor"]
        g = ct["gen"]
        if g == "random_walk":
            return RandomWalkGenerator(grid_size=ct["n"], num_random_moves=ct["moves"])
        if g == "enum":
            return _enum_generator(ct["n"], cfg["episodes"], cfg.get("stride", 1))
        if g == "randperm":
            return _randperm_generator(ct["n"])
        raise KeyError(g)

    def _build(self, cfg, reward):
        from jumanji.environments.logic.sliding_tile_puzzle.env import SlidingTilePuzzle
        from jumanji.environments.logic.sliding_tile_puzzle.reward import DenseRewardFn, SparseRewardFn

        ct = cfg["ctor"]
        rf = DenseRewardFn() if reward == "dense" else SparseRewardFn()
        if ct["gen"] == "default":
            if reward == "dense":
                return SlidingTilePuzzle()          # everything left to the documented defaults
            return SlidingTilePuzzle(reward_fn=rf)  # the lock-step twin of the default environment
        if ct["time_limit"] is None:                # time limit left to its documented default (500)
            return SlidingTilePuzzle(generator=self._generator(cfg), reward_fn=rf)
        return SlidingTilePuzzle(generator=self._generator(cfg), reward_fn=rf, time_limit=ct["time_limit"])

    def make(self, cfg):
        return self._build(cfg, cfg["ctor"]["reward"])

    def make_alt(self, cfg):
        return self._build(cfg, "sparse" if cfg["ctor"]["reward"] == "dense" else "dense")

    def cfg_record(self, cfg, env):
        """What the harness REQUESTED (documented defaults for the parts it left to the library).
        num_random_moves = -1: not requested and not documented (default constructor)."""
        ct = cfg["ctor"]
        g = ct["gen"]
        tl = 500 if ct["time_limit"] is None else ct["time_limit"]   # "time_limit: ... default to 500"
        return dict(grid_size=ct["n"], time_limit=tl, reward_fn=ct["reward"],
                    generator="random_walk" if g == "default" else g,
                    num_random_moves=ct.get("moves", -1))

    # ---- policies ------------------------------------------------------------------------------
    def choose(self, policy, env, state, obs, rng, i):
        dt = env.action_spec.dtype
        if policy in ("solve", "solve_noisy"):
            if policy == "solve_noisy" and rng.random() < 0.25:
                return self.random_actions(env, rng, 1)[0]
            a = _toward_goal(np.asarray(state.puzzle))
            if a is None:
                return super().choose("masked", env, state, obs, rng, i)
            return np.asarray(a, dtype=dt)
        if policy == "survive":      # never complete the puzzle: the episode must run into its time limit
            puzzle = np.asarray(state.puzzle)
            n = puzzle.shape[0]
            t = tuple(int(x) for x in puzzle.reshape(-1))
            legal = dict(_neighbours(t, n))
            ok = [a for a, q in legal.items() if q != _goal(n)]
            blocked = [a for a in range(4) if a not in legal]
            pool = ok if (ok and (not blocked or rng.random() < 0.8)) else (blocked or ok or [0])
            return np.asarray(rng.choice(pool), dtype=dt)
        return super().choose(policy, env, state, obs, rng, i)
