"""RubiksCube adapter.

Two kinds of configurations:

* mode "scramble": the real `ScramblingGenerator` (default constructor, registered ids, explicit sizes). The
  generator is wrapped so that the reset state carries, in an extra projected field `scramble`, the flat action
  sequence `generate_actions_for_scramble(scramble_key)` for the very key derivation `Generator.__call__` uses
  (`_, scramble_key = split(key)`); the cube itself still comes from the real `__call__`. TLC re-applies that
  sequence to the solved cube with the SPEC's moves (C10 / C17.state_solvable).
* mode "labelled": a generator that returns a cube whose stickers carry labels instead of colours
  ("ids": all 6 n^2 stickers distinct; "rows"/"cols": face*n+row / face*n+col, which together identify a sticker
  and fit int8 for every n). With the distinct cube as pre-state and every move probed, the recorded post-states
  ARE the implementation's sticker permutations (C17).

The action field of every step event is a record {u, flat, unflat, reflat}: the played (face, depth, amount)
triple and the outputs of the implementation's own flatten_action / unflatten_action on it.
"""
import numpy as np

from harness.envs.base import T_SWEEP_QUICK, T_SWEEP_THOROUGH, EnvAdapter

DEFAULTS = dict(cube_size=3, time_limit=200, num_scrambles=100)   # documented constructor defaults
INVERSE_AMOUNT = {0: 1, 1: 0, 2: 2}
OPPOSITE = {0: 5, 5: 0, 1: 3, 3: 1, 2: 4, 4: 2}     # Face enum: UP, FRONT, RIGHT, BACK, LEFT, DOWN

_CLS = {}


def _classes():
    if _CLS:
        return _CLS
    import chex
    import jax
    import jax.numpy as jnp

    from jumanji.environments.logic.rubiks_cube.generator import Generator

    # the library's State plus one side-channel field (the flat actions of the scramble, never read by the env); built from
    # the State's own annotations so that a field the library adds is carried along
    from jumanji.environments.logic.rubiks_cube.types import State as _LibState

    _ann = dict(getattr(_LibState, "__annotations__", {}))
    _ann["scramble"] = chex.Array
    LoggedState = chex.dataclass(type("LoggedState", (), {"__annotations__": _ann}))

    class ScrambleLog(Generator):
        """Delegates to the real generator and logs the scramble it is documented to apply."""

        def __init__(self, inner):
            self.inner = inner
            super().__init__(cube_size=inner.cube_size)

        def generate_cube(self, key):
            return self.inner.generate_cube(key)

        def __call__(self, key):
            st = self.inner(key)                           # the code under test
            _, scramble_key = jax.random.split(key)         # key derivation of Generator.__call__
            acts = self.inner.generate_actions_for_scramble(scramble_key)
            return LoggedState(**{f: getattr(st, f) for f in st.__dataclass_fields__}, scramble=acts)

    class LabelGen(Generator):
        """A key-independent cube whose stickers carry labels (state injection through the generator API)."""

        def __init__(self, cube_size, label, dtype):
            super().__init__(cube_size=cube_size)
            n = cube_size
            f, r, c = np.meshgrid(np.arange(6), np.arange(n), np.arange(n), indexing="ij")
            arr = {"ids": f * n * n + r * n + c, "rows": f * n + r, "cols": f * n + c}[label]
            assert arr.max() <= np.iinfo(dtype).max
            self._cube = arr.astype(dtype)

        def generate_cube(self, key):
            return jnp.asarray(self._cube)

    _CLS.update(LoggedState=LoggedState, ScrambleLog=ScrambleLog, LabelGen=LabelGen)
    return _CLS


def _reward_fns():
    """User-supplied reward functions (the documented extension point `reward_fn`): the reward is then no witness of
    the goal, the solved test is still the cube's."""
    import jax.numpy as jnp

    from jumanji.environments.logic.rubiks_cube.reward import RewardFn

    class StepPenalty(RewardFn):          # -1 per move, 0 on the move that solves the cube
        def __call__(self, state):
            faces = state.cube.reshape(6, -1)
            return jnp.where(jnp.all(faces == faces[:, :1]), 0.0, -1.0)

    class CentreFraction(RewardFn):       # fraction of stickers that show the colour of their face's first sticker (> 0 always)
        def __call__(self, state):
            faces = state.cube.reshape(6, -1)
            return jnp.mean((faces == faces[:, :1]).astype(float))

    return {"penalty": StepPenalty, "dense": CentreFraction}


REWARD_PROPS = ["C03", "C11", "C12", "C17"]


def _scr(id, n, t, k, episodes, max_steps, policies, via="ctor", **kw):
    return dict(id=id, ctor=dict(cube_size=n, time_limit=t, num_scrambles=k), mode="scramble", label="colours",
                via=via, episodes=episodes, max_steps=max_steps, policies=policies, **kw)


def _lab(n, label, dtype, t=200, max_steps=2):
    return dict(id=f"n{n}_{label}{np.dtype(dtype).itemsize * 8}", ctor=dict(cube_size=n, time_limit=t, num_scrambles=0),
                mode="labelled", label=label, dtype=np.dtype(dtype).name, via="ctor", episodes=1, max_steps=max_steps,
                policies=["random"], post_terminal=0, props=["C03", "C11", "C12", "C17"])


class Adapter(EnvAdapter):
    name = "RubiksCube"
    props = ("C01", "C03", "C10", "C11", "C12", "C17")
    probe_cap = 64        # >= 18 * (7 // 2) = 54: every move is probed from every visited state

    def configs(self, tier):
        mix = ["random", "solve"]
        if tier == "quick":
            out = [
                # the default constructor: 3x3x3, 100 scrambles, time limit 200
                _scr("default", 3, 200, 100, 4, 8, mix, via="default"),
                # one random episode up to the default time limit, one that undoes the 100 scrambles (solved at 100)
                _scr("default_long", 3, 200, 100, 2, 203, mix, via="default", probe_every=67),
                # the registered easy version: 7 scrambles, time limit 20
                _scr("partly_scrambled_v0", 3, 20, 7, 4, 23, mix, via="make:RubiksCube-partly-scrambled-v0",
                     probe_every=3),
                # the registered easy version with the time limit overridden through jumanji.make (its registration carries
                # a time limit of its own: the caller's value wins), below and above the registered 20
                _scr("partly_make_t3", 3, 3, 7, 3, 6, ["random", "solve"], via="make:RubiksCube-partly-scrambled-v0",
                     make_kwargs=dict(time_limit=3), probe_every=0, props=["C01", "C03", "C11", "C12"]),
                _scr("partly_make_t33", 3, 33, 7, 1, 36, ["random"], via="make:RubiksCube-partly-scrambled-v0",
                     make_kwargs=dict(time_limit=33), probe_every=0, props=["C01", "C03", "C11", "C12"]),
                _scr("v0_make_t5", 3, 5, 100, 1, 8, ["random"], via="make:RubiksCube-v0",
                     make_kwargs=dict(time_limit=5), probe_every=0, props=["C01", "C03", "C11", "C12"]),
                # user-supplied reward functions: a step penalty (0 when solved) and a positive dense reward
                _scr("n3_t20_s3_penalty", 3, 20, 3, 4, 8, ["solve", "random"], reward="penalty", probe_every=2, props=REWARD_PROPS),
                _scr("n2_t6_s2_dense", 2, 6, 2, 4, 8, ["random", "solve"], reward="dense", probe_every=2, props=REWARD_PROPS),
                _scr("n2_t3_s1", 2, 3, 1, 6, 6, mix),
                _scr("n2_t1_s0", 2, 1, 0, 4, 4, ["random"]),
                # solved exactly at the time limit (both end reasons on the same step) / one step before it
                _scr("n3_t1_s1", 3, 1, 1, 4, 4, ["solve", "random"]),
                _scr("n3_t3_s2", 3, 3, 2, 4, 6, ["solve", "random"], probe_every=2),
                # even sizes: turning every layer about one axis rotates the whole cube; the result is a solved
                # cube (every face of one colour) that differs from the reset cube
                _scr("n2_t3_s0_rot", 2, 3, 0, 2, 5, ["rotate"]),
                _scr("n4_t20_s0_rot", 4, 20, 0, 1, 7, ["rotate"], probe_every=4),
                # half turns of two adjacent faces from the solved cube: four faces of one colour, two not
                _scr("n3_t20_s0_half", 3, 20, 0, 8, 14, ["halfturns"], probe_every=3),
                _scr("n4_t20_s0_half", 4, 20, 0, 4, 14, ["halfturns"], probe_every=6),
                _scr("n4_t20_s7", 4, 20, 7, 3, 23, ["solve", "random", "random"], probe_every=5),
                _scr("n5_t3_s100", 5, 3, 100, 4, 6, ["random"], probe_every=2),
            ]
            # time-limit sweep ("for every value passed"): primes and powers of two, one random episode each,
            # no probes; the cube is scrambled 100 times, so random play does not solve it before the limit
            out += [_scr(f"n2_t{t}_sweep", 2, t, 100, 1, t + 2, ["random"], probe_every=0, props=["C01", "C03", "C11", "C12"])
                    for t in T_SWEEP_QUICK]
            out += [_lab(n, "ids", np.int32) for n in (2, 3, 4, 5)]
            out += [_lab(n, "ids", np.int8) for n in (2, 3, 4)]
            out += [_lab(5, "rows", np.int8), _lab(5, "cols", np.int8)]
            return out
        out = [
            _scr("default", 3, 200, 100, 12, 30, mix, via="default"),
            _scr("default_long", 3, 200, 100, 6, 203, mix, via="default", probe_every=25),
            _scr("v0", 3, 200, 100, 6, 40, mix, via="make:RubiksCube-v0", probe_every=2),
            _scr("partly_scrambled_v0", 3, 20, 7, 40, 23, mix, via="make:RubiksCube-partly-scrambled-v0"),
        ]
        for t in (1, 2, 3, 7, 19, 21, 64):
            out.append(_scr(f"partly_make_t{t}", 3, t, 7, 2, t + 3, ["random", "solve"], via="make:RubiksCube-partly-scrambled-v0",
                            make_kwargs=dict(time_limit=t), probe_every=0, props=["C01", "C03", "C11", "C12"]))
            out.append(_scr(f"v0_make_t{t}", 3, t, 100, 1, t + 3, ["random"], via="make:RubiksCube-v0",
                            make_kwargs=dict(time_limit=t), probe_every=0, props=["C01", "C03", "C11", "C12"]))
        for n in (2, 3, 4):
            out.append(_scr(f"n{n}_t20_s3_penalty", n, 20, 3, 12, 8, ["solve", "random"], reward="penalty", props=REWARD_PROPS))
            out.append(_scr(f"n{n}_t6_s2_dense", n, 6, 2, 12, 8, ["random", "solve"], reward="dense", props=REWARD_PROPS))
        for n in (2, 3, 4, 5, 6, 7):
            pe = 1 if n < 4 else 3
            out += [
                _scr(f"n{n}_t1_s0", n, 1, 0, 6, 4, ["random"]),
                _scr(f"n{n}_t20_s0_rot", n, 20, 0, 2, n + 3, ["rotate"]),
                _scr(f"n{n}_t20_s0_half", n, 20, 0, 24 if n < 4 else 48, 14, ["halfturns"], probe_every=pe),
                _scr(f"n{n}_t3_s1", n, 3, 1, 24, 6, mix),
                _scr(f"n{n}_t20_s7", n, 20, 7, 16, 23, mix, probe_every=pe),
                _scr(f"n{n}_t3_s100", n, 3, 100, 12, 6, ["random"], probe_every=pe),
                _scr(f"n{n}_t200_s100", n, 200, 100, 2, 203, mix, probe_every=40),
                _lab(n, "ids", np.int32, max_steps=6), _lab(n, "rows", np.int8, max_steps=6),
                _lab(n, "cols", np.int8, max_steps=6),
            ]
            if 6 * n * n <= 127:
                out.append(_lab(n, "ids", np.int8, max_steps=6))
        out += [_scr(f"n2_t{t}_sweep", 2, t, 100, 1, t + 2, ["random"], probe_every=0, props=["C01", "C03", "C11", "C12"])
                for t in T_SWEEP_THOROUGH]
        return out

    # ---- construction -------------------------------------------------------------------------
    def make(self, cfg):
        import jax.numpy as jnp

        import jumanji
        from jumanji.environments import RubiksCube
        from jumanji.environments.logic.rubiks_cube.generator import ScramblingGenerator
        from jumanji.environments.logic.rubiks_cube.utils import flatten_action, unflatten_action

        cls = _classes()
        c = cfg["ctor"]
        n = c["cube_size"]
        if cfg["mode"] == "labelled":
            env = RubiksCube(generator=cls["LabelGen"](n, cfg["label"], np.dtype(cfg["dtype"])),
                             time_limit=c["time_limit"])
        else:
            via = cfg.get("via", "ctor")
            if via == "default":
                env = RubiksCube()
            elif via.startswith("make:"):
                env = jumanji.make(via[5:], **cfg.get("make_kwargs", {}))     # keyword arguments override the registered ones
            else:
                kw = {}
                if cfg.get("reward", "sparse") != "sparse":
                    kw["reward_fn"] = _reward_fns()[cfg["reward"]]()
                env = RubiksCube(generator=ScramblingGenerator(cube_size=n, num_scrambles_on_reset=c["num_scrambles"]),
                                 time_limit=c["time_limit"], **kw)
            env.generator = cls["ScrambleLog"](env.generator)
        # the implementation's action encodings, tabulated once: triple -> flat -> triple -> flat
        nd = n // 2
        self._n = n
        self._enc = {}
        for f in range(6):
            for d in range(nd):
                for m in range(3):
                    flat = int(flatten_action(jnp.array([f, d, m], jnp.int32), n))
                    unflat = [int(x) for x in np.asarray(unflatten_action(jnp.asarray(flat, jnp.int32), n))]
                    reflat = int(flatten_action(jnp.array(unflat, jnp.int32), n))
                    self._enc[(f, d, m)] = dict(u=[f, d, m], flat=flat, unflat=unflat, reflat=reflat)
        self._unflat_tab, self._reflat_tab = [], []
        for k in range(18 * nd):
            u = unflatten_action(jnp.asarray(k, jnp.int32), n)
            self._unflat_tab.append([int(x) for x in np.asarray(u)])
            self._reflat_tab.append(int(flatten_action(u, n)))
        return env

    def cfg_record(self, cfg, env):
        rec = dict(cfg["ctor"])           # what the harness requested (documented defaults for via=default/make)
        rec["mode"] = cfg["mode"]
        rec["label"] = cfg["label"]
        rec["via"] = cfg.get("via", "ctor")
        rec["reward"] = cfg.get("reward", "sparse")
        rec["unflatten_tab"] = self._unflat_tab       # implementation: unflatten_action(k), k = 0..NM-1
        rec["reflatten_tab"] = self._reflat_tab       # implementation: flatten_action(unflatten_action(k))
        return rec

    def action_json(self, a):
        t = tuple(int(x) for x in np.asarray(a).reshape(-1))
        return self._enc[t]

    # ---- policies -----------------------------------------------------------------------------
    def policies(self, tier):
        return ["random", "solve"]

    def choose(self, policy, env, state, obs, rng, i):
        if policy == "rotate":
            # every layer about the vertical axis, all in the same sense: a rotation of the whole cube when n is even
            nd = self._n // 2
            plan = [[0, d, 0] for d in range(nd)] + [[5, d, 1] for d in reversed(range(nd))]
            if i < len(plan):
                return np.asarray(plan[i], dtype=env.action_spec.dtype)
            return self.random_actions(env, rng, 1)[0]
        if policy == "halfturns":
            # (a2 b2)^k from the solved cube for two adjacent faces a, b (and layers of any depth): after three rounds two
            # pairs of edges are exchanged, which leaves FOUR faces of one colour and the two others not - "solved" must be
            # decided on all six faces; after six rounds the cube is solved again
            if i == 0:
                nd = self._n // 2
                a = int(rng.integers(6))
                b = int(rng.choice([f for f in range(6) if f != a and f != OPPOSITE[a]]))
                da, db = int(rng.integers(nd)), int(rng.integers(nd))
                self._plan = [[a, da, 2], [b, db, 2]] * 6
            if i < len(self._plan):
                return np.asarray(self._plan[i], dtype=env.action_spec.dtype)
            return self.random_actions(env, rng, 1)[0]
        if policy != "solve":
            return self.random_actions(env, rng, 1)[0]
        # undo the logged scramble (only a way to reach solved cubes on the main line; never a judge)
        if i == 0:
            nd = self._n // 2
            plan = []
            for a in reversed([int(x) for x in np.asarray(getattr(state, "scramble", []))]):
                plan.append([a // (3 * nd), (a // 3) % nd, INVERSE_AMOUNT[a % 3]])
            self._plan = plan
        if i < len(self._plan):
            return np.asarray(self._plan[i], dtype=env.action_spec.dtype)
        return self.random_actions(env, rng, 1)[0]
