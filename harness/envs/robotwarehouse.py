"""Adapter of jumanji's RobotWarehouse (multi-agent RWARE; actions noop, forward, left, right, toggle_load).

ctor keys (interpreted by `make`, exported by `cfg_record`):
  gen                  "default" (RobotWarehouse(time_limit=...) builds its own RandomGenerator 2x3x8 / 4 agents /
                       sensor range 1 / queue 8) or "random" (RandomGenerator with the sizes below)
  shelf_rows, shelf_columns, column_height, num_agents, sensor_range, request_queue_size
  time_limit           the value requested from the constructor

Policies (per episode, round-robin):
  random    uniform joint actions
  carrier   every agent walks to a shelf, loads it and then mostly drives around / waits / bumps into other
            shelves / unloads (the carrying branches of the rules are rare under uniform play)
  deliver   purposeful, collision-avoiding play: fetch a requested shelf, carry it along the highways to a goal
            cell, bring it back to a free slot (deliveries, queue replacement, long episodes for the time limit)
  deliver2  the same, but agent k serves goal k mod 2 and waits in front of it for the others, so that two
            shelves are delivered in the same step (the second replacement sees the first one)
  meet      the agents seek each other (collisions: same destination, swaps, follow-the-leader in both id orders)
"""
from collections import deque

import numpy as np

from harness.envs.base import EnvAdapter

DELTA = ((-1, 0), (0, 1), (1, 0), (0, -1))  # direction 0 up, 1 right, 2 down, 3 left
NOOP, FORWARD, LEFT, RIGHT, TOGGLE = range(5)


def _c(cid, rows, cols, height, agents, srange, queue, tl, gen="random", **kw):
    ctor = dict(gen=gen, shelf_rows=rows, shelf_columns=cols, column_height=height, num_agents=agents,
                sensor_range=srange, request_queue_size=queue, time_limit=tl)
    return dict(id=cid, ctor=ctor, **kw)


INJ_PROPS = ["C01", "C03", "C04", "C05", "C07", "C09", "C11", "C12"]


def _injected_generator(cfg):
    """INJ: the states of the TLC model (every start cell / direction / request queue, mid-game states in which agent 0
    already carries a shelf anywhere on the floor, and everything reachable from them within the model's depth) as start
    states, handed out by a table-driven generator (state number key[1]).  The arrays take the dtypes of the state the
    library's own generator produced, every other field is that state's, and the action mask is computed by the library."""
    import jax.numpy as jnp

    from harness import inject
    from jumanji.environments.routing.robot_warehouse import utils
    from jumanji.environments.routing.robot_warehouse.generator import RandomGenerator

    inject.need(utils, "compute_action_mask")
    k = cfg["ctor"]
    states, _ = inject.dump_states(cfg["inject"][0], cfg["inject"][1], var=None, limit=None)
    # states an episode continues from: not reached by a LAST step (collision, time limit), nor after one
    live = {repr(st["s"]): st["s"] for st in states if st["last"]["type"] != 2 and not st["last"]["pl"]
            and st["s"]["step_count"] < k["time_limit"]}
    tab = inject.thin([live[r] for r in sorted(live)], cfg.get("limit"))
    cfg["episodes"] = len(tab)
    A = lambda f: np.array([f(s) for s in tab])          # noqa: E731
    grid = A(lambda s: s["grid"])
    ax, ay = A(lambda s: s["agents"]["position"]["x"]), A(lambda s: s["agents"]["position"]["y"])
    adir, acar = A(lambda s: s["agents"]["direction"]), A(lambda s: s["agents"]["is_carrying"])
    sx, sy = A(lambda s: s["shelves"]["position"]["x"]), A(lambda s: s["shelves"]["position"]["y"])
    sreq, queue, steps = A(lambda s: s["shelves"]["is_requested"]), A(lambda s: s["request_queue"]), A(lambda s: s["step_count"])

    class InjectedGenerator(RandomGenerator):
        def __call__(self, key):
            tpl = super().__call__(key)
            j = key[1] % grid.shape[0]
            like = lambda arr, t: jnp.asarray(arr)[j].astype(t.dtype).reshape(t.shape)      # noqa: E731
            agents = inject.state_like(
                tpl.agents, position=inject.state_like(tpl.agents.position, x=like(ax, tpl.agents.position.x),
                                                       y=like(ay, tpl.agents.position.y)),
                direction=like(adir, tpl.agents.direction), is_carrying=like(acar, tpl.agents.is_carrying))
            shelves = inject.state_like(
                tpl.shelves, position=inject.state_like(tpl.shelves.position, x=like(sx, tpl.shelves.position.x),
                                                        y=like(sy, tpl.shelves.position.y)),
                is_requested=like(sreq, tpl.shelves.is_requested))
            g = like(grid, tpl.grid)
            return inject.state_like(tpl, grid=g, agents=agents, shelves=shelves, request_queue=like(queue, tpl.request_queue),
                                     step_count=like(steps, tpl.step_count), action_mask=utils.compute_action_mask(g, agents))

    return InjectedGenerator(shelf_rows=k["shelf_rows"], shelf_columns=k["shelf_columns"], column_height=k["column_height"],
                             num_agents=k["num_agents"], sensor_range=k["sensor_range"],
                             request_queue_size=k["request_queue_size"])


class Adapter(EnvAdapter):
    name = "RobotWarehouse"
    props = ("C01", "C03", "C04", "C05", "C07", "C09", "C10", "C11", "C12")
    probe_cap = 64
    state_overrides = {"shelves.is_requested": lambda v: np.rint(np.asarray(v, dtype=np.float64)).astype(np.int64).tolist()}

    # ---- configurations -------------------------------------------------------------------
    def configs(self, tier):
        # time-limit sweep ("for every value passed", C11): a single agent cannot collide, so only the limit ends the episode
        from harness.envs.base import T_SWEEP_QUICK_FEW, T_SWEEP_THOROUGH_FEW

        ts = T_SWEEP_QUICK_FEW if tier == "quick" else T_SWEEP_THOROUGH_FEW
        return self._base_configs(tier) + [_c(f"r1c3h1a1_s1q2_t{t}_sweep", 1, 3, 1, 1, 1, 2, t, episodes=1, max_steps=t + 2,
                                              policies=["deliver"], probe_every=0, props=["C01", "C03", "C11", "C12"]) for t in ts]

    def _base_configs(self, tier):
        pols = ["carrier", "deliver", "random"]                               # one agent
        polm = ["deliver2", "meet", "carrier", "deliver", "random"]           # several agents
        if tier == "quick":
            return [
                _c("r1c3h1a1_s1q2_t7", 1, 3, 1, 1, 1, 2, 7, episodes=8, max_steps=10, policies=pols),
                _c("r1c3h1a1_s1q1_t1", 1, 3, 1, 1, 1, 1, 1, episodes=4, max_steps=4, policies=pols),
                _c("r1c3h1a2_s2q3_t2", 1, 3, 1, 2, 2, 3, 2, episodes=4, max_steps=5, policies=["meet", "carrier", "random"]),
                _c("r1c3h2a2_s1q2_t3", 1, 3, 2, 2, 1, 2, 3, episodes=5, max_steps=6, policies=["carrier", "meet", "random"]),
                _c("r1c3h1a1_s2q2_t60", 1, 3, 1, 1, 2, 2, 60, episodes=3, max_steps=64, policies=["deliver", "carrier"],
                   probe_every=2),
                _c("r1c3h2a2_s2q4_t40", 1, 3, 2, 2, 2, 4, 40, episodes=6, max_steps=44, policies=polm, probe_every=3),
                _c("default_t500", 2, 3, 8, 4, 1, 8, 500, gen="default", episodes=2, max_steps=504,
                   policies=["deliver", "carrier"], probe_every=40, probe_cap=30),
                _c("r2c3h8a4_s2q8_t7", 2, 3, 8, 4, 2, 8, 7, episodes=3, max_steps=10, policies=["meet", "carrier", "random"],
                   probe_cap=26),
                _c("r1c3h2a2_s3q3_t40", 1, 3, 2, 2, 3, 3, 40, episodes=3, max_steps=44, policies=polm, probe_every=3),   # 7 x 7 field
                _c("r1c3h2a2_s0q2_t7", 1, 3, 2, 2, 0, 2, 7, episodes=3, max_steps=10, policies=polm),             # own cell only
                # a collision on the very step of the time limit (two endings at once)
                _c("r1c3h1a2_s1q2_t14_ram", 1, 3, 1, 2, 1, 2, 14, episodes=4, max_steps=17, policies=["ram_at_limit"], probe_every=7),
                # generator-heavy: many resets with many agents on the smallest floor (start cells must be distinct)
                _c("r1c3h1a6_s1q2_gen", 1, 3, 1, 6, 1, 2, 5, episodes=60, max_steps=0, policies=["random"], props=["C10"]),
                # INJ: the states of the one-agent TLC model (every start, carrying states on every floor cell), all 5 actions
                _c("inj_a1_t2", 1, 3, 1, 1, 1, 1, 2, inject=("MC_RobotWarehouse", "MC_RobotWarehouse_quick.cfg"), episodes=0,
                   max_steps=1, post_terminal=0, policies=["random"], limit=1200, props=INJ_PROPS),
            ]
        out = []
        for t in (1, 2, 3, 7):
            out.append(_c(f"r1c3h1a1_s1q2_t{t}", 1, 3, 1, 1, 1, 2, t, episodes=16, max_steps=t + 3, policies=pols))
            out.append(_c(f"r1c3h2a2_s2q3_t{t}", 1, 3, 2, 2, 2, 3, t, episodes=16, max_steps=t + 3, policies=polm))
            out.append(_c(f"r2c3h8a4_s1q8_t{t}", 2, 3, 8, 4, 1, 8, t, episodes=6, max_steps=t + 3, policies=polm,
                          probe_cap=40))
        out += [
            _c("r1c3h1a1_s1q1_t80", 1, 3, 1, 1, 1, 1, 80, episodes=12, max_steps=84, policies=pols),
            _c("r1c3h1a1_s2q3_t80", 1, 3, 1, 1, 2, 3, 80, episodes=12, max_steps=84, policies=pols),
            _c("r1c3h1a2_s1q2_t60", 1, 3, 1, 2, 1, 2, 60, episodes=12, max_steps=64, policies=polm),
            _c("r1c3h2a2_s2q4_t60", 1, 3, 2, 2, 2, 4, 60, episodes=12, max_steps=64, policies=polm),
            _c("r1c3h2a1_s1q7_t60", 1, 3, 2, 1, 1, 7, 60, episodes=8, max_steps=64, policies=pols),
            _c("r2c1h1a2_s1q1_t40", 2, 1, 1, 2, 1, 1, 40, episodes=15, max_steps=44, policies=polm),
            _c("r1c5h2a3_s1q5_t60", 1, 5, 2, 3, 1, 5, 60, episodes=10, max_steps=64, policies=polm, probe_cap=40,
               probe_every=2),
            _c("r2c3h3a3_s2q6_t80", 2, 3, 3, 3, 2, 6, 80, episodes=10, max_steps=84, policies=polm, probe_cap=40,
               probe_every=2),
            _c("default_t500", 2, 3, 8, 4, 1, 8, 500, gen="default", episodes=6, max_steps=504,
               policies=["deliver", "carrier", "deliver2"], probe_every=10, probe_cap=40),
            _c("r2c3h8a4_s2q8_t120", 2, 3, 8, 4, 2, 8, 120, episodes=10, max_steps=124, policies=polm, probe_every=5,
               probe_cap=40),
            # sensor ranges 0 (the agent sees only its own cell) and 3 (a 7 x 7 field, larger than the small floor), 3 shelf rows
            _c("r1c3h2a2_s0q2_t40", 1, 3, 2, 2, 0, 2, 40, episodes=6, max_steps=44, policies=polm, probe_every=2),
            _c("r1c3h2a2_s3q3_t40", 1, 3, 2, 2, 3, 3, 40, episodes=6, max_steps=44, policies=polm, probe_every=2),
            _c("r1c3h1a2_s1q2_t14_ram", 1, 3, 1, 2, 1, 2, 14, episodes=12, max_steps=17, policies=["ram_at_limit"], probe_every=7),
            _c("r1c3h2a3_s1q3_t20_ram", 1, 3, 2, 3, 1, 3, 20, episodes=8, max_steps=23, policies=["ram_at_limit"], probe_every=10),
            # more than 127 shelves (3 x 3 clusters of 2 x 8)
            _c("r3c3h8a3_s1q9_t30", 3, 3, 8, 3, 1, 9, 30, episodes=3, max_steps=34, policies=polm, probe_every=6, probe_cap=30),
            _c("r3c3h2a3_s3q6_t60", 3, 3, 2, 3, 3, 6, 60, episodes=5, max_steps=64, policies=polm, probe_every=3, probe_cap=40),
            _c("r2c3h3a5_s1q6_t40", 2, 3, 3, 5, 1, 6, 40, episodes=5, max_steps=44, policies=polm, probe_every=3, probe_cap=40),
            _c("r1c3h1a6_s1q2_gen", 1, 3, 1, 6, 1, 2, 5, episodes=400, max_steps=0, policies=["random"], props=["C10"]),
            _c("r1c3h1a8_s1q2_gen", 1, 3, 1, 8, 1, 2, 5, episodes=300, max_steps=0, policies=["random"], props=["C10"]),
            _c("default_gen", 2, 3, 8, 4, 1, 8, 500, gen="default", episodes=300, max_steps=0, policies=["random"], props=["C10"]),
            _c("inj_a1_t2", 1, 3, 1, 1, 1, 1, 2, inject=("MC_RobotWarehouse", "MC_RobotWarehouse_quick.cfg"), episodes=0,
               max_steps=2, post_terminal=0, policies=["random"], limit=6000, props=INJ_PROPS),
            # two agents next to each other around a shelf slot: all 25 joint actions (collisions, swaps, follow-the-leader)
            _c("inj_a2_t3", 1, 3, 1, 2, 1, 1, 3, inject=("MC_RobotWarehouse", "MC_RobotWarehouse_thorough_pair.cfg"), episodes=0,
               max_steps=1, post_terminal=0, policies=["random"], limit=4000, props=INJ_PROPS),
        ]
        return out

    def make(self, cfg):
        from jumanji.environments import RobotWarehouse
        from jumanji.environments.routing.robot_warehouse.generator import RandomGenerator

        k = cfg["ctor"]
        self._time_limit = k["time_limit"]
        if k["gen"] == "default":
            return RobotWarehouse(time_limit=k["time_limit"])
        if "inject" in cfg:
            return RobotWarehouse(generator=_injected_generator(cfg), time_limit=k["time_limit"])
        gen = RandomGenerator(shelf_rows=k["shelf_rows"], shelf_columns=k["shelf_columns"],
                              column_height=k["column_height"], num_agents=k["num_agents"],
                              sensor_range=k["sensor_range"], request_queue_size=k["request_queue_size"])
        return RobotWarehouse(generator=gen, time_limit=k["time_limit"])

    def episode_key(self, cfg, ep, seed):
        if "inject" not in cfg:
            return None
        from harness import inject

        return inject.ep_key(ep)

    def cfg_record(self, cfg, env):
        k = cfg["ctor"]
        rec = {f: k[f] for f in ("shelf_rows", "shelf_columns", "column_height", "num_agents", "sensor_range",
                                 "request_queue_size", "time_limit")}
        rec["injected"] = "inject" in cfg        # episodes start mid-way: the deadline is read off the state's own counter
        return rec

    # ---- probes ---------------------------------------------------------------------------
    def probe_sample(self, env, state, obs, rng, k):
        """Each agent's five actions with the others on noop, then with the others random, then random joint
        actions, up to k (used when the joint space exceeds the cap; smaller spaces are enumerated)."""
        na = env.num_agents
        dt = env.action_spec.dtype
        acts = []
        for ag in range(na):
            for a in range(5):
                act = np.zeros(na, dtype=dt)
                act[ag] = a
                acts.append(act)
        acts.extend(self._collision_actions(env, state, rng)[:max(4, k // 5)])
        for ag in range(na):
            for a in (FORWARD, TOGGLE, NOOP):
                act = rng.integers(0, 5, size=(na,)).astype(dt)
                act[ag] = a
                acts.append(act)
        acts = acts[:max(0, k - 2)] if len(acts) > k - 2 else acts
        while len(acts) < k:
            acts.append(rng.integers(0, 5, size=(na,)).astype(dt))
        return np.stack(acts[:k]).astype(dt)

    def _collision_actions(self, env, state, rng):
        """Joint actions in which an agent drives into a cell another agent occupies or also drives into
        (the other agent stays, leaves, or comes the opposite way); everybody else on noop."""
        pos = np.stack([np.asarray(state.agents.position.x), np.asarray(state.agents.position.y)], axis=1)
        dirs = np.asarray(state.agents.direction)
        rows, cols = np.asarray(state.grid).shape[1:]
        na = len(pos)
        dt = env.action_spec.dtype
        cell = [(int(p[0]), int(p[1])) for p in pos]
        ahead = []
        for k in range(na):
            d = DELTA[int(dirs[k])]
            ahead.append((min(max(cell[k][0] + d[0], 0), rows - 1), min(max(cell[k][1] + d[1], 0), cols - 1)))
        out = []
        for k in range(na):
            for j in range(na):
                if j == k or ahead[k] == cell[k]:
                    continue
                if ahead[k] == cell[j]:
                    for aj in (NOOP, FORWARD, TOGGLE):
                        act = np.zeros(na, dtype=dt)
                        act[k], act[j] = FORWARD, aj
                        out.append(act)
                elif ahead[k] == ahead[j] and j > k:
                    act = np.zeros(na, dtype=dt)
                    act[k] = act[j] = FORWARD
                    out.append(act)
        rng.shuffle(out)
        return out

    # ---- policies -------------------------------------------------------------------------
    def choose(self, policy, env, state, obs, rng, i):
        if i == 0:
            self._wait = {}
        if policy == "random":
            return self.random_actions(env, rng, 1)[0]
        if policy == "deliver":
            return self._purposeful(env, state, rng, eps=0.0, avoid=True)
        if policy == "deliver2":
            return self._purposeful(env, state, rng, eps=0.0, avoid=True, sync=True)
        if policy == "meet":
            return self._meet(env, state, rng)
        if policy == "ram_at_limit":
            # the agents seek each other but hold back until the very last step of the episode, then one drives into the
            # other: a collision and the time limit on the same step
            T = self._time_limit
            step = int(np.asarray(state.step_count))
            ca = self._collision_actions(env, state, rng)
            if step >= T - 1 and ca:
                return ca[0]
            act = self._meet(env, state, np.random.default_rng(1))     # (deterministic: no random quarter)
            pos = np.stack([np.asarray(state.agents.position.x), np.asarray(state.agents.position.y)], axis=1)
            dirs = np.asarray(state.agents.direction)
            cell = [(int(q[0]), int(q[1])) for q in pos]
            tgt = [(cell[k][0] + DELTA[int(dirs[k])][0], cell[k][1] + DELTA[int(dirs[k])][1]) if act[k] == FORWARD else cell[k]
                   for k in range(len(cell))]
            for k in range(len(cell)):
                if act[k] == FORWARD and any(j != k and (tgt[k] == cell[j] or tgt[k] == tgt[j]) for j in range(len(cell))):
                    act[k] = NOOP
            return act
        if policy == "carrier":
            return self._carrier(env, state, rng)
        return super().choose(policy, env, state, obs, rng, i)

    # world view shared by the policies
    def _world(self, env, state):
        grid = np.asarray(state.grid)
        shelves, agents = grid[0], grid[1]
        pos = np.stack([np.asarray(state.agents.position.x), np.asarray(state.agents.position.y)], axis=1)
        dirs = np.asarray(state.agents.direction)
        car = np.asarray(state.agents.is_carrying).astype(int)
        queue = set(int(q) for q in np.asarray(state.request_queue))
        highways = np.asarray(env.highways).astype(bool)
        goals = [(int(g[1]), int(g[0])) for g in np.asarray(env.goals)]  # stored as (col, row)
        return shelves, agents, pos, dirs, car, queue, highways, goals

    @staticmethod
    def _bfs_next(start, targets, passable):
        """First step (cell) of a shortest 4-connected path from start to any target; None if unreachable."""
        if start in targets:
            return start
        rows, cols = passable.shape
        prev = {start: None}
        dq = deque([start])
        while dq:
            cur = dq.popleft()
            for d in DELTA:
                nb = (cur[0] + d[0], cur[1] + d[1])
                if not (0 <= nb[0] < rows and 0 <= nb[1] < cols) or nb in prev:
                    continue
                if not passable[nb] and nb not in targets:
                    continue
                prev[nb] = cur
                if nb in targets:
                    while prev[nb] != start:
                        nb = prev[nb]
                    return nb
                dq.append(nb)
        return None

    @staticmethod
    def _steer(p, d, nxt):
        """Action that brings an agent at p facing d closer to entering the adjacent cell nxt."""
        want = DELTA.index((nxt[0] - p[0], nxt[1] - p[1]))
        if want == d:
            return FORWARD
        return RIGHT if (want - d) % 4 == 1 else LEFT

    def _goal_action(self, ag, w, claimed, sync=False):
        """What a purposeful agent does next: (action, destination cell of a forward move or None)."""
        shelves, agents, pos, dirs, car, queue, highways, goals = w
        p = (int(pos[ag][0]), int(pos[ag][1]))
        d = int(dirs[ag])
        here = int(shelves[p])
        if car[ag]:
            requested = here > 0 and (here - 1) in queue
            passable = shelves == 0                       # a loaded robot cannot enter shelf cells
            if requested:
                targets = {goals[ag % len(goals)]} if sync else set(goals)
                if sync:                                    # leave the other goal cell to the other agents
                    passable = passable.copy()
                    for g in goals:
                        if g not in targets:
                            passable[g] = False
            else:                                           # bring it back to a free slot
                targets = set(map(tuple, np.argwhere((~highways) & (shelves == 0))))
                if not highways[p]:
                    return TOGGLE, None
            if not targets:
                return NOOP, None
            nxt = self._bfs_next(p, targets, passable)
            if nxt is None or nxt == p:
                return NOOP, None
            a = self._steer(p, d, nxt)
            return a, (nxt if a == FORWARD else None)
        # not carrying: fetch a requested shelf nobody else is standing on / heading for
        taken = {(int(pos[j][0]), int(pos[j][1])) for j in range(len(pos)) if j != ag}
        targets = {tuple(c) for c in np.argwhere(shelves > 0)
                   if (int(shelves[tuple(c)]) - 1) in queue and tuple(c) not in taken and tuple(c) not in claimed
                   and tuple(c) not in goals}
        if p in targets:
            return TOGGLE, None
        if not targets:
            return NOOP, None
        nxt = self._bfs_next(p, targets, np.ones_like(highways))
        if nxt is None:
            return NOOP, None
        a = self._steer(p, d, nxt)
        return a, (nxt if a == FORWARD else None)

    def _purposeful(self, env, state, rng, eps, avoid, sync=False):
        w = self._world(env, state)
        pos = w[2]
        na = len(pos)
        shelves, car, queue, goals = w[0], w[4], w[5], w[7]
        loaded = [bool(car[j]) and (int(shelves[int(pos[j][0]), int(pos[j][1])]) - 1) in queue for j in range(na)]
        plan = [self._goal_action(j, w, set(), sync) for j in range(na)] if sync else None
        ready = [sync and loaded[j] and plan[j][0] == FORWARD and plan[j][1] == goals[j % len(goals)]
                 for j in range(na)]
        occupied = {(int(pos[j][0]), int(pos[j][1])) for j in range(na)}
        reserved, claimed = set(), set()
        act = np.zeros(na, dtype=env.action_spec.dtype)
        for ag in range(na):
            if eps and rng.random() < eps:
                a, dest = int(rng.integers(0, 5)), None
                if a == FORWARD:
                    p = (int(pos[ag][0]), int(pos[ag][1]))
                    dl = DELTA[int(w[3][ag])]
                    dest = (p[0] + dl[0], p[1] + dl[1])
            else:
                a, dest = self._goal_action(ag, w, claimed, sync)
            if sync and ready[ag] and not all(ready[j] for j in range(na) if j != ag) \
                    and self._wait.get(ag, 0) < 30:
                self._wait[ag] = self._wait.get(ag, 0) + 1     # wait in front of the goal for the others
                a, dest = NOOP, None
            elif sync and ready[ag]:
                self._wait[ag] = 0
            if avoid and a == FORWARD and dest is not None and (dest in occupied or dest in reserved):
                a = LEFT if rng.random() < 0.3 else NOOP   # give way (sometimes shuffle to break deadlocks)
            if a == FORWARD and dest is not None:
                reserved.add(dest)
                claimed.add(dest)
            act[ag] = a
        return act

    def _carrier(self, env, state, rng):
        """Load a shelf as soon as possible, then exercise every action while carrying."""
        shelves, agents, pos, dirs, car, queue, highways, goals = self._world(env, state)
        na = len(pos)
        act = np.zeros(na, dtype=env.action_spec.dtype)
        for ag in range(na):
            p = (int(pos[ag][0]), int(pos[ag][1]))
            d = int(dirs[ag])
            if car[ag]:
                # forward (often into a neighbouring shelf: illegal), noop, turns, toggle
                act[ag] = rng.choice([FORWARD, FORWARD, FORWARD, NOOP, NOOP, LEFT, RIGHT, TOGGLE])
                continue
            if rng.random() < 0.15:
                act[ag] = rng.integers(0, 5)
                continue
            if shelves[p] > 0:
                act[ag] = TOGGLE
                continue
            targets = {tuple(c) for c in np.argwhere(shelves > 0)}
            nxt = self._bfs_next(p, targets, np.ones_like(highways))
            act[ag] = NOOP if nxt is None else self._steer(p, d, nxt)
        return act

    def _meet(self, env, state, rng):
        """Every agent heads for the nearest other agent (one in four actions is random)."""
        shelves, agents, pos, dirs, car, queue, highways, goals = self._world(env, state)
        na = len(pos)
        act = np.zeros(na, dtype=env.action_spec.dtype)
        for ag in range(na):
            p = (int(pos[ag][0]), int(pos[ag][1]))
            others = {(int(pos[j][0]), int(pos[j][1])) for j in range(na) if j != ag}
            if not others or rng.random() < 0.25:
                act[ag] = rng.integers(0, 5)
                continue
            nxt = self._bfs_next(p, others, np.ones_like(highways))
            act[ag] = rng.integers(0, 5) if nxt is None or nxt == p else self._steer(p, int(dirs[ag]), nxt)
        return act
