"""Adapter of jumanji's Cleaner (multi-agent maze cleaning, joint action of shape (num_agents,)).

ctor keys (interpreted by `make`, exported by `cfg_record`):
  gen         "default" (Cleaner() builds its own RandomGenerator 10x10 with 3 agents) or "random"
  rows, cols, agents   size requested from RandomGenerator
  time_limit  int or None (None = the documented default num_rows * num_cols)
  penalty     penalty_per_timestep (None = leave the documented default 0.5 to the library)

Square and NON-square rooms are both in the matrix (the rules distinguish rows from columns).
Policies (all decided from the raw state with the documented rule "inside the room and not a wall",
never from the implementation's mask, except the inherited "masked"/"mostly_masked"):
  legal    every agent plays a uniformly random legal move            (runs into the time limit)
  sweep    every agent walks a shortest path to the nearest dirty tile (cleans everything)
  inject   like sweep, but one random agent plays an illegal move at a random step
  random   uniformly random joint action (usually ends on an invalid move within a few steps)
"""
from collections import deque

import numpy as np

from harness.envs.base import EnvAdapter

MOVES = ((-1, 0), (0, 1), (1, 0), (0, -1))  # up, right, down, left (documentation order)
WALL, DIRTY = 2, 0


def _c(cid, gen, rows, cols, agents, tl, penalty, **kw):
    return dict(id=cid, ctor=dict(gen=gen, rows=rows, cols=cols, agents=agents, time_limit=tl, penalty=penalty), **kw)


POL = ["sweep", "legal", "inject", "random", "masked", "mostly_masked"]


class Adapter(EnvAdapter):
    name = "Cleaner"
    props = ("C01", "C03", "C04", "C05", "C07", "C08", "C09", "C10", "C11", "C12")
    gen_heavy = {'r3x4a2_tnone': (40, 300), 'r2x3a1_t2': (40, 300)}
    probe_cap = 64          # 4^3 joint actions of 3 agents are enumerated exhaustively

    # ---- configurations -------------------------------------------------------------------
    def configs(self, tier):
        # time-limit sweep ("for every value passed", C11): limits below, at and ABOVE the number of tiles; the shuttle
        # policy keeps every agent walking between already clean tiles, so the episode can only end by the limit
        from harness.envs.base import T_SWEEP_QUICK_FEW, T_SWEEP_THOROUGH_FEW

        ts = sorted(set((8, 9) + tuple(T_SWEEP_QUICK_FEW if tier == "quick" else T_SWEEP_THOROUGH_FEW)))
        return self._base_configs(tier) + [
            _c(f"r2x4a{1 + t % 2}_t{t}_sweep", "random", 2, 4, 1 + t % 2, t, 0.5, episodes=1, max_steps=t + 2, policies=["shuttle"],
               probe_every=0, props=["C01", "C03", "C11", "C12"]) for t in ts]

    def _base_configs(self, tier):
        if tier == "quick":
            return [
                _c("default10a3", "default", 10, 10, 3, None, None, episodes=3, max_steps=104,
                   probe_every=4, probe_cap=20, policies=["sweep", "legal", "inject"]),
                _c("s6x6a2_t3", "random", 6, 6, 2, 3, 0.5, episodes=6, max_steps=6, policies=POL),
                _c("r4x9a2_tnone", "random", 4, 9, 2, None, 0.5, episodes=5, max_steps=39, probe_every=2,
                   policies=["sweep", "legal", "inject", "masked", "random"]),
                _c("r9x4a3_t7_p0", "random", 9, 4, 3, 7, 0.0, episodes=6, max_steps=10, probe_cap=24, policies=POL),
                _c("r2x3a1_t2", "random", 2, 3, 1, 2, 0.5, episodes=6, max_steps=5, policies=POL),
                _c("r2x3a1_tnone_p0", "random", 2, 3, 1, None, 0.0, episodes=6, max_steps=9, policies=POL),
                _c("s3x3a2_t1", "random", 3, 3, 2, 1, 0.5, episodes=6, max_steps=4, policies=POL),
                _c("r3x4a2_tnone", "random", 3, 4, 2, None, 0.5, episodes=5, max_steps=15,
                   policies=["sweep", "legal", "inject", "masked", "random"]),
                # the penalty given as a Python int: rewards must stay float32
                _c("r2x4a1_t3_pint", "random", 2, 4, 1, 3, 1, episodes=4, max_steps=6, policies=POL),
            ]
        out = [_c("default10a3", "default", 10, 10, 3, None, None, episodes=12, max_steps=104,
                  probe_every=3, probe_cap=28, policies=POL)]
        shapes = [(10, 10, 3), (6, 6, 2), (4, 9, 2), (9, 4, 3), (2, 3, 1), (3, 2, 2), (3, 3, 2), (5, 5, 1),
                  (3, 7, 3), (7, 3, 2), (8, 8, 4), (1, 5, 2), (5, 1, 1), (2, 2, 2)]
        limits = [1, 2, 3, 7, None]
        for k, (r, c, n) in enumerate(shapes):
            for j in range(2):      # two of the five limits per shape, rotating; penalties alternate
                tl = limits[(k + 2 * j + k // 5) % 5]
                pen = (0.5, 0.0, 0.3)[(k + j) % 3]
                horizon = tl if tl is not None else r * c
                out.append(_c(f"r{r}x{c}a{n}_t{'none' if tl is None else tl}_p{int(pen * 10)}", "random", r, c, n, tl, pen,
                              episodes=18 if horizon <= 7 else 12, max_steps=horizon + 3,
                              probe_every=1 if horizon <= 10 else 3, probe_cap=64 if r * c <= 30 else 40, policies=POL))
        out.append(_c("r2x4a1_t3_pint", "random", 2, 4, 1, 3, 1, episodes=12, max_steps=6, policies=POL))
        # more agents than the default, a room larger than the default, a limit above the number of tiles
        out.append(_c("r6x7a6_t7_p5", "random", 6, 7, 6, 7, 0.5, episodes=8, max_steps=10, probe_cap=48, policies=POL))
        out.append(_c("r13x12a2_t30_p5", "random", 13, 12, 2, 30, 0.5, episodes=4, max_steps=33, probe_every=3, policies=POL))
        out.append(_c("r3x3a2_t20_p3", "random", 3, 3, 2, 20, 0.3, episodes=10, max_steps=23, policies=["shuttle", "legal", "sweep", "inject"]))
        seen = set()
        return [c for c in out if not (c["id"] in seen or seen.add(c["id"]))]

    # ---- the real environment ------------------------------------------------------------------
    def make(self, cfg):
        from jumanji.environments import Cleaner
        from jumanji.environments.routing.cleaner.generator import RandomGenerator

        ct = cfg["ctor"]
        kw = {}
        if ct["time_limit"] is not None:
            kw["time_limit"] = ct["time_limit"]
        if ct["penalty"] is not None:
            kw["penalty_per_timestep"] = ct["penalty"]
        if ct["gen"] == "default":
            return Cleaner(**kw)
        gen = RandomGenerator(num_rows=ct["rows"], num_cols=ct["cols"], num_agents=ct["agents"])
        return Cleaner(generator=gen, time_limit=ct["time_limit"], **{k: v for k, v in kw.items() if k != "time_limit"})

    def cfg_record(self, cfg, env):
        """What the harness REQUESTED (documented defaults for the parts it left to the library)."""
        ct = cfg["ctor"]
        tl = ct["time_limit"]
        pen = 0.5 if ct["penalty"] is None else ct["penalty"]      # "a configurable penalty (-0.5 by default)"
        return dict(num_rows=ct["rows"], num_cols=ct["cols"], num_agents=ct["agents"],
                    time_limit_given=tl is not None, time_limit=0 if tl is None else tl,
                    penalty_q=int(round(pen * 65536)))

    # ---- the documented rule, for the policies ----------------------------------------------------
    @staticmethod
    def _view(state):
        return np.asarray(state.grid), [tuple(int(v) for v in p) for p in np.asarray(state.agents_locations)]

    @staticmethod
    def _free(grid, rc):
        return 0 <= rc[0] < grid.shape[0] and 0 <= rc[1] < grid.shape[1] and grid[rc] != WALL

    def _legal_moves(self, grid, p):
        return [a for a, d in enumerate(MOVES) if self._free(grid, (p[0] + d[0], p[1] + d[1]))]

    def _toward_dirty(self, grid, p, taken):
        """First action of a shortest path from p to the nearest dirty tile not in `taken`, with that tile."""
        if not self._free(grid, p):
            return None, None
        first = {p: None}
        dq = deque([p])
        while dq:
            q = dq.popleft()
            if grid[q] == DIRTY and q not in taken:
                return first[q], q
            for a, d in enumerate(MOVES):
                r = (q[0] + d[0], q[1] + d[1])
                if self._free(grid, r) and r not in first:
                    first[r] = a if first[q] is None else first[q]
                    dq.append(r)
        return None, None

    def _legal_joint(self, grid, locs, rng, dt):
        out = []
        for p in locs:
            lm = self._legal_moves(grid, p)
            out.append(int(rng.choice(lm)) if lm else int(rng.integers(0, 4)))
        return np.asarray(out, dtype=dt)

    def _sweep_joint(self, grid, locs, rng, dt):
        out, taken = [], set()
        for p in locs:
            a, tgt = self._toward_dirty(grid, p, taken)
            if a is None:
                a, tgt = self._toward_dirty(grid, p, set())
            if a is None:
                lm = self._legal_moves(grid, p)
                a = int(rng.choice(lm)) if lm else int(rng.integers(0, 4))
            else:
                taken.add(tgt)
            out.append(a)
        return np.asarray(out, dtype=dt)

    def choose(self, policy, env, state, obs, rng, i):
        dt = env.action_spec.dtype
        if policy == "shuttle":      # legal moves onto tiles that are already clean whenever there is one: never finishes
            grid, locs = self._view(state)
            out = []
            for p in locs:
                lm = self._legal_moves(grid, p)
                clean = [a for a in lm if grid[p[0] + MOVES[a][0], p[1] + MOVES[a][1]] != DIRTY]
                pool = clean or lm
                out.append(int(rng.choice(pool)) if pool else 0)
            return np.asarray(out, dtype=dt)
        if policy in ("legal", "sweep", "inject"):
            grid, locs = self._view(state)
            if policy == "legal":
                return self._legal_joint(grid, locs, rng, dt)
            act = self._sweep_joint(grid, locs, rng, dt)
            if policy == "inject":
                if i == 0:      # the step of this episode at which one agent misbehaves
                    self._inject_at = int(rng.integers(1, max(2, min(env.time_limit, 12))))
                if i == self._inject_at:
                    ag = int(rng.integers(0, len(locs)))
                    bad = [a for a in range(4) if a not in self._legal_moves(grid, locs[ag])]
                    if bad:
                        act[ag] = int(rng.choice(bad))
            return act
        return super().choose(policy, env, state, obs, rng, i)

    # ---- probes (used when the joint space exceeds the cap) -------------------------------------------
    def probe_sample(self, env, state, obs, rng, k):
        """Each agent's four moves with the other agents on random moves, then with the others on legal moves,
        then uniformly random joint actions, k actions in all."""
        na = env.num_agents
        dt = env.action_spec.dtype
        grid, locs = self._view(state)
        acts = []
        for others_legal in (False, True):
            for ag in range(na):
                for a in range(4):
                    act = self._legal_joint(grid, locs, rng, dt) if others_legal \
                        else rng.integers(0, 4, size=(na,)).astype(dt)
                    act[ag] = a
                    acts.append(act)
        acts = acts[:k]
        while len(acts) < k:
            acts.append(rng.integers(0, 4, size=(na,)).astype(dt))
        return np.stack(acts)
