"""Adapter of jumanji's Sokoban: configurations (offline generators, custom small levels, both reward
functions, time limits) and policies.

The default generator (HuggingFaceDeepMindGenerator) downloads a dataset and cannot be used offline; the
environment is driven through the shipped offline generators (ToyGenerator, SimpleSolveGenerator) and through
`LevelsGenerator` below, which serves hand-written levels: small rooms embedded in the hard-wired 10x10 board
(4 boxes, 4 targets) in which random play often pushes boxes against walls, the board's edge and each other
and often completes the level.

ctor keys (interpreted by `make`, exported by `cfg_record`):
  gen         "toy" | "simple" | "levels"
  levels      for gen="levels": names of LEVELS served (uniformly at random in the reset key)
  reward      "dense" | "sparse"
  time_limit  int, or None = do not pass the argument (documented default 120)

Level alphabet (the usual Sokoban one): '#' wall, ' ' floor, '.' target, '$' box, '@' agent,
'*' box on a target, '+' agent on a target.
"""
from collections import deque

import numpy as np

from harness.envs.base import EnvAdapter

GRID = 10
N_BOXES = 4
MOVES = ((-1, 0), (0, 1), (1, 0), (0, -1))  # up, right, down, left (class docstring / action_spec order)

W = "##########"
LEVELS = {
    # room in the top-left corner: its top and left sides are the edge of the board (no wall ring).
    # three boxes sit on targets in sealed cells, the fourth is one push away from completion.
    "edge_tl": ["@ $.#*#*#*",
                "    ######",
                "    ######",
                W, W, W, W, W, W, W],
    # room in the bottom-right corner (bottom and right sides are the edge of the board);
    # two adjacent boxes (box-box contact), two targets on the bottom row.
    "edge_br": ["*#*#######",
                W, W, W, W, W, W,
                "######    ",
                "###### $$ ",
                "######@.. "],
    # crowded 3x4 walled room: four boxes, four targets, agent on a target; every push meets a wall or a box soon.
    "crowded": [W, W, W,
                "###+ $.###",
                "### $$.###",
                "### $. ###",
                W, W, W, W],
    # walled room in which three boxes start ON targets and the fourth is one push away: wandering pushes
    # boxes off targets (-1) and back on (+1).
    "on_targets": [W, W,
                   "##      ##",
                   "## ** ####",
                   "##    ####",
                   "##@$.*####",
                   "##    ####",
                   W, W, W],
    # OPEN boards without a wall ring: a box already on the top / left / bottom / right edge of the BOARD with the agent
    # right behind it, and free cells on the opposite edge (an outward push must be refused, not wrap around)
    "open_top": ["  $    .  ",
                 "  @       ",
                 "          ",
                 " $     .  ",
                 "          ",
                 "   $  .   ",
                 "          ",
                 "     $  . ",
                 "          ",
                 "          "],
    "open_left": ["          ",
                  "       .  ",
                  "          ",
                  "          ",
                  "$@    .   ",
                  "          ",
                  "  $  $ .  ",
                  "          ",
                  "  $    .  ",
                  "          "],
    "open_br": ["          ",
                "  .    .  ",
                "          ",
                "   $      ",
                "        @$",
                "  .       ",
                "      $   ",
                "  .       ",
                "          ",
                "    $     "],
    # a box in line with a box that already stands ON a target: the push must be refused (box-box contact where the
    # second box is encoded as box-on-target), horizontally and vertically
    "box_on_target_h": [W, W,
                        "##      ##",
                        "## @$*  ##",
                        "##      ##",
                        "##  $ . ##",
                        "##  $ . ##",
                        "##    . ##",
                        W, W],
    "box_on_target_v": [W, W,
                        "##  @   ##",
                        "##  $   ##",
                        "##  * $.##",
                        "##    $.##",
                        "##     .##",
                        "##      ##",
                        W, W],
    # one-cell cell: every action is blocked (walls left and right, a box with a wall behind it above,
    # a box with another box behind it below).
    "island": [W,
               "#*#.#.####",
               W,
               W,
               "####$#####",
               "####@#####",
               "####$#####",
               "####$#####",
               "####.#####",
               W],
    # one-cell-wide corridor along the left edge of the board: the box is two pushes from its target; a third
    # push takes it off again and a fourth is refused (chained push against the box at the end).
    "corridor": ["@#########",
                 " #########",
                 "$#########",
                 " #*#######",
                 ".#########",
                 " #*#######",
                 "*#########",
                 " #########",
                 " #########",
                 " #########"],
}


def parse_level(rows):
    assert len(rows) == GRID and all(len(r) == GRID for r in rows), rows
    fixed = np.zeros((GRID, GRID), np.uint8)
    var = np.zeros((GRID, GRID), np.uint8)
    for r, line in enumerate(rows):
        for c, ch in enumerate(line):
            if ch == "#":
                fixed[r, c] = 1
            if ch in ".*+":
                fixed[r, c] = 2
            if ch in "@+":
                var[r, c] = 3
            if ch in "$*":
                var[r, c] = 4
    assert (var == 3).sum() == 1 and (var == 4).sum() == N_BOXES and (fixed == 2).sum() == N_BOXES, rows
    return fixed, var


def _levels_generator(names):
    import jax
    import jax.numpy as jnp

    from jumanji.environments.routing.sokoban.generator import Generator
    from jumanji.environments.routing.sokoban.types import State

    parsed = [parse_level(LEVELS[n]) for n in names]
    fixed = jnp.asarray(np.stack([p[0] for p in parsed]), jnp.uint8)
    var = jnp.asarray(np.stack([p[1] for p in parsed]), jnp.uint8)
    locs = jnp.asarray(np.stack([np.argwhere(p[1] == 3)[0] for p in parsed]), jnp.int32)

    class LevelsGenerator(Generator):
        def __call__(self, rng_key):
            key, idx_key = jax.random.split(rng_key)
            idx = jax.random.randint(idx_key, (), 0, fixed.shape[0])
            from harness import inject
            from jumanji.environments.routing.sokoban.generator import ToyGenerator

            return inject.state_like(ToyGenerator()(key), key=key, fixed_grid=fixed[idx], variable_grid=var[idx],
                                     agent_location=locs[idx], step_count=jnp.array(0, jnp.int32))

    return LevelsGenerator()


# ---- a tiny simulator used ONLY to choose actions (policies); it judges nothing --------------------------
def _sim(fixed, agent, boxes, a):
    """(agent, boxes) after action a; unchanged when the move is blocked."""
    d = MOVES[a]
    q = (agent[0] + d[0], agent[1] + d[1])
    if not (0 <= q[0] < GRID and 0 <= q[1] < GRID) or fixed[q] == 1:
        return agent, boxes
    if q in boxes:
        b = (q[0] + d[0], q[1] + d[1])
        if not (0 <= b[0] < GRID and 0 <= b[1] < GRID) or fixed[b] == 1 or b in boxes:
            return agent, boxes
        return q, (boxes - {q}) | {b}
    return q, boxes


def _plan(fixed, agent, boxes, cap=60000):
    """Shortest action sequence to completion by BFS (None if not found within `cap` nodes)."""
    targets = frozenset(map(tuple, np.argwhere(fixed == 2)))
    start = (agent, boxes)
    if boxes <= targets:
        return []
    seen = {start: None}
    dq = deque([start])
    while dq and len(seen) < cap:
        cur = dq.popleft()
        for a in range(4):
            nxt = _sim(fixed, cur[0], cur[1], a)
            if nxt in seen or nxt == cur:
                continue
            seen[nxt] = (cur, a)
            if nxt[1] <= targets:
                out = []
                while seen[nxt] is not None:
                    nxt, act = seen[nxt]
                    out.append(act)
                return out[::-1]
            dq.append(nxt)
    return None


def _c(cid, gen, reward, tl, levels=None, **kw):
    ctor = dict(gen=gen, reward=reward, time_limit=tl)
    if levels is not None:
        ctor["levels"] = list(levels)
    return dict(id=cid, ctor=ctor, **kw)


ROOMS = ("edge_tl", "edge_br", "crowded", "on_targets", "corridor")
ALL_POL = ["random", "solve", "solve_noisy", "survive", "pusher"]


class Adapter(EnvAdapter):
    name = "Sokoban"
    props = ("C01", "C03", "C05", "C07", "C09", "C10", "C11", "C12")

    def configs(self, tier):
        # time-limit sweep ("for every value passed", C11): one surviving episode per value, no probes
        from harness.envs.base import T_SWEEP_QUICK_FEW, T_SWEEP_THOROUGH_FEW

        ts = T_SWEEP_QUICK_FEW if tier == "quick" else T_SWEEP_THOROUGH_FEW
        return self._base_configs(tier) + [_c(f"toy_t{t}_sweep", "toy", "dense", t, episodes=1, max_steps=t + 2, policies=["survive"], probe_every=0, props=["C01", "C03", "C11", "C12"]) for t in ts]

    def _base_configs(self, tier):
        if tier == "quick":
            return [
                _c("toy_dense_tdefault", "toy", "dense", None, episodes=4, max_steps=123, probe_every=3,
                   policies=["pusher", "random", "survive", "pusher"]),
                _c("toy_sparse_t3", "toy", "sparse", 3, episodes=8, max_steps=6, policies=["pusher", "random"]),
                _c("simple_dense_t120", "simple", "dense", 120, episodes=4, max_steps=123, probe_every=2,
                   policies=["solve", "solve_noisy", "pusher", "solve_noisy"]),
                _c("simple_sparse_t7", "simple", "sparse", 7, episodes=4, max_steps=10,
                   policies=["pusher", "random", "solve", "survive"]),
                _c("rooms_dense_t7", "levels", "dense", 7, ROOMS, episodes=16, max_steps=10, policies=ALL_POL),
                _c("rooms_sparse_t120", "levels", "sparse", 120, ROOMS, episodes=8, max_steps=123, probe_every=2,
                   policies=["solve", "solve_noisy", "random", "survive"]),
                _c("rooms_dense_t120", "levels", "dense", 120, ROOMS, episodes=8, max_steps=40, probe_every=1,
                   policies=["solve_noisy", "solve", "random", "pusher"]),
                _c("rooms_dense_t1", "levels", "dense", 1, ROOMS, episodes=10, max_steps=4, policies=ALL_POL),
                _c("rooms_sparse_t2", "levels", "sparse", 2, ROOMS, episodes=10, max_steps=5, policies=ALL_POL),
                _c("rooms_dense_t3", "levels", "dense", 3, ROOMS, episodes=10, max_steps=6, policies=ALL_POL),
                _c("island_dense_t3", "levels", "dense", 3, ("island",), episodes=2, max_steps=6, policies=["random"]),
                _c("open_dense_t7", "levels", "dense", 7, ("open_top", "open_left", "open_br"), episodes=12, max_steps=10,
                   policies=ALL_POL),
                _c("boxontarget_sparse_t7", "levels", "sparse", 7, ("box_on_target_h", "box_on_target_v"), episodes=8, max_steps=10,
                   policies=ALL_POL),
            ]
        out = []
        limits = [1, 2, 3, 7, 120, None]
        for gen in ("toy", "simple"):
            for rw in ("dense", "sparse"):
                for tl in limits:
                    long = tl in (120, None)
                    out.append(_c(f"{gen}_{rw}_t{'default' if tl is None else tl}", gen, rw, tl,
                                  episodes=6 if long else 16, max_steps=(tl or 120) + 3,
                                  probe_every=2 if long else 1, policies=ALL_POL))
        for rw in ("dense", "sparse"):
            for tl in limits:
                long = tl in (120, None)
                out.append(_c(f"rooms_{rw}_t{'default' if tl is None else tl}", "levels", rw, tl, ROOMS,
                              episodes=12 if long else 40, max_steps=(tl or 120) + 3,
                              probe_every=2 if long else 1, policies=ALL_POL))
            for name in ROOMS:
                out.append(_c(f"{name}_{rw}_t30", "levels", rw, 30, (name,), episodes=8, max_steps=33,
                              policies=ALL_POL))
            out.append(_c(f"island_{rw}_t7", "levels", rw, 7, ("island",), episodes=3, max_steps=10,
                          policies=["random"]))
        return out

    # ---- the real environment ------------------------------------------------------------------
    def _build(self, ct, reward):
        from jumanji.environments import Sokoban
        from jumanji.environments.routing.sokoban.generator import SimpleSolveGenerator, ToyGenerator
        from jumanji.environments.routing.sokoban.reward import DenseReward, SparseReward

        g = ct["gen"]
        gen = ToyGenerator() if g == "toy" else SimpleSolveGenerator() if g == "simple" \
            else _levels_generator(ct["levels"])
        kw = dict(generator=gen, reward_fn=DenseReward() if reward == "dense" else SparseReward())
        if ct["time_limit"] is not None:
            kw["time_limit"] = ct["time_limit"]
        return Sokoban(**kw)

    def make(self, cfg):
        return self._build(cfg["ctor"], cfg["ctor"]["reward"])

    def cfg_record(self, cfg, env):
        """What the harness REQUESTED; board size and number of boxes are the documented constants."""
        ct = cfg["ctor"]
        return dict(num_rows=GRID, num_cols=GRID, n_boxes=N_BOXES,
                    time_limit=120 if ct["time_limit"] is None else ct["time_limit"],   # "defaults to 120"
                    reward=ct["reward"],
                    # a one-level LevelsGenerator is constant by construction: C10's "depends on the key" does not apply
                    generator="single" if ct["gen"] == "levels" and len(ct["levels"]) == 1 else ct["gen"])

    # ---- policies ------------------------------------------------------------------------------
    def policies(self, tier):
        return ALL_POL

    @staticmethod
    def _view(state):
        fixed = np.asarray(state.fixed_grid)
        var = np.asarray(state.variable_grid)
        agent = tuple(int(x) for x in np.asarray(state.agent_location))
        boxes = frozenset(map(tuple, np.argwhere(var == 4)))
        return fixed, agent, boxes

    def choose(self, policy, env, state, obs, rng, i):
        dt = env.action_spec.dtype
        if policy == "random":
            return self.random_actions(env, rng, 1)[0]
        fixed, agent, boxes = self._view(state)
        targets = frozenset(map(tuple, np.argwhere(fixed == 2)))
        outcome = [_sim(fixed, agent, boxes, a) for a in range(4)]
        if policy == "survive":          # never complete the level: the episode must run into its time limit
            ok = [a for a in range(4) if not outcome[a][1] <= targets]
            moving = [a for a in ok if outcome[a][0] != agent]
            pool = moving if (moving and rng.random() < 0.8) else (ok or [0])
            return np.asarray(rng.choice(pool), dtype=dt)
        if policy == "pusher":           # prefers pushes, then walks, sometimes bumps
            push = [a for a in range(4) if outcome[a][1] != boxes]
            walk = [a for a in range(4) if outcome[a][0] != agent]
            u = rng.random()
            pool = push if (push and u < 0.5) else walk if (walk and u < 0.9) else [0, 1, 2, 3]
            return np.asarray(rng.choice(pool), dtype=dt)
        if policy in ("solve", "solve_noisy"):
            if policy == "solve_noisy" and rng.random() < 0.25:
                return self.random_actions(env, rng, 1)[0]
            cache = self.__dict__.setdefault("_plans", {})
            k = (fixed.tobytes(), agent, boxes)
            if k not in cache:
                if len(cache) > 5000:
                    cache.clear()
                plan = _plan(fixed, agent, boxes)
                # remember the whole path so that following the plan needs no new search
                cur = (agent, boxes)
                if plan is None:
                    cache[k] = None
                else:
                    for j, a in enumerate(plan):
                        cache[(fixed.tobytes(), cur[0], cur[1])] = a
                        cur = _sim(fixed, cur[0], cur[1], a)
                    cache.setdefault(k, None)
            a = cache[k]
            if a is None:
                walk = [b for b in range(4) if outcome[b][0] != agent]
                return np.asarray(rng.choice(walk or [0, 1, 2, 3]), dtype=dt)
            return np.asarray(a, dtype=dt)
        return super().choose(policy, env, state, obs, rng, i)
