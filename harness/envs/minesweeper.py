import numpy as np

from harness import jsonify
from harness.envs.base import EnvAdapter

DEFAULT_REWARDS = (1.0, 0.0, 0.0)  # documented defaults: safe square, mine, invalid action
INJ_PROPS = ["C01", "C03", "C04", "C05", "C07", "C09", "C12"]


def _budget_done_fn(budget):
    """A user-supplied done function (the documented extension point): the default rules plus a budget of moves."""
    from jumanji.environments.logic.minesweeper.done import DefaultDoneFn

    class BudgetDoneFn(DefaultDoneFn):
        def __call__(self, state, next_state, action):
            return super().__call__(state, next_state, action) | (next_state.step_count >= budget)

    return BudgetDoneFn()


def _injected_generator(cfg):
    """INJ: every running state of the TLC model with cfg["mines"] mines (every placement of the mines, every set of
    revealed safe squares short of the solved board) as a start state, handed out by a table-driven generator (state
    number key[1]); every other field is the one the library's own generator produced."""
    import jax.numpy as jnp

    from harness import inject
    from jumanji.environments.logic.minesweeper.generator import Generator, UniformSamplingGenerator

    states, _ = inject.dump_states(cfg["inject"][0], cfg["inject"][1], var=None, limit=None)
    rows, cols, m = cfg["ctor"]["num_rows"], cfg["ctor"]["num_cols"], cfg["ctor"]["num_mines"]
    seen = {}
    for st in states:
        s = st["s"]
        if st["post"] == 0 and len(s["flat_mine_locations"]) == m:
            seen.setdefault(repr((s["board"], s["flat_mine_locations"])), s)
    tab = inject.thin([seen[k] for k in sorted(seen)], cfg.get("limit"))
    if not tab:
        raise inject.Unavailable(f"no running state with {m} mines in {cfg['inject']}")
    cfg["episodes"] = len(tab)
    assert (len(tab[0]["board"]), len(tab[0]["board"][0])) == (rows, cols)
    boards = np.array([t["board"] for t in tab])
    mines = np.array([t["flat_mine_locations"] for t in tab]).reshape((len(tab), m))
    steps = np.array([t["step_count"] for t in tab])

    class InjectedGenerator(Generator):
        def __init__(self):
            super().__init__(num_rows=rows, num_cols=cols, num_mines=m)

        def generate_flat_mine_locations(self, key):
            return jnp.asarray(mines)[key[1] % mines.shape[0]]

        def __call__(self, key):
            j = key[1] % boards.shape[0]
            tpl = UniformSamplingGenerator(num_rows=rows, num_cols=cols, num_mines=m)(key)
            return inject.state_like(
                tpl, board=jnp.asarray(boards)[j].astype(tpl.board.dtype),
                flat_mine_locations=jnp.asarray(mines)[j].astype(tpl.flat_mine_locations.dtype),
                step_count=jnp.asarray(steps)[j].astype(tpl.step_count.dtype))

    return InjectedGenerator()


class Adapter(EnvAdapter):
    name = "Minesweeper"
    props = ("C01", "C03", "C04", "C05", "C07", "C08", "C09", "C10", "C11", "C12")
    gen_heavy = {'r2c2m1': (60, 400), 'r3c3m8': (60, 400), 'r4c6m4': (40, 300)}
    probe_cap = 64  # every (row, col) is probed on boards up to 8x8; larger boards are sampled (probe_sample)

    def configs(self, tier):
        def c(id, rows, cols, mines, **kw):
            d = dict(id=id, ctor=dict(num_rows=rows, num_cols=cols, num_mines=mines))
            d.update(kw)
            return d

        mixed = ["safe", "masked", "mostly_masked", "random"]
        if tier == "quick":
            return [
                # registered default (built through the default constructor): 100 joint actions are sampled
                c("r10c10m10", 10, 10, 10, default_ctor=True, episodes=4, max_steps=95, probe_every=4, probe_cap=24,
                  policies=["safe", "masked", "mostly_masked", "safe_then_invalid"]),
                c("r4c6m4", 4, 6, 4, episodes=6, max_steps=30, policies=mixed + ["safe_then_invalid", "safe_then_mine"]),
                c("r6c4m5", 6, 4, 5, episodes=6, max_steps=30, policies=mixed + ["safe_then_mine", "safe_then_invalid"]),
                c("r2c2m1", 2, 2, 1, episodes=10, max_steps=8, policies=mixed),
                c("r3c3m0", 3, 3, 0, episodes=5, max_steps=14, policies=["safe", "masked", "random"]),
                c("r3c3m8", 3, 3, 8, episodes=8, max_steps=5, policies=["safe", "masked", "random"]),
                # configurable reward function: three pairwise different values
                c("r4c6m4_rw", 4, 6, 4, rewards=(2.0, -1.0, -0.5), episodes=6, max_steps=30,
                  policies=["safe", "safe_then_mine", "safe_then_invalid", "masked"]),
                # the three values given as Python ints (whole numbers): the reward must still be a float32 scalar
                c("r3c5m3_rwint", 3, 5, 3, rewards=(3, -2, -1), episodes=4, max_steps=16,
                  policies=["safe", "safe_then_mine", "safe_then_invalid", "masked"]),
                # a user-supplied done function: the default rules plus a budget of 3 (5) moves
                c("r5c5m3_budget3", 5, 5, 3, move_budget=3, episodes=6, max_steps=6, policies=["safe", "masked", "safe_then_mine", "safe"]),
                c("r4c6m4_budget5_rw", 4, 6, 4, move_budget=5, rewards=(2.0, -1.0, -0.5), episodes=4, max_steps=8,
                  policies=["safe", "safe_then_invalid", "masked"]),
            ] + [
                # INJ: every running state of the 2x3 TLC model (all placements, all revealed sets), every click probed
                c(f"inj2x3_m{m}", 2, 3, m, inject=("MC_Minesweeper", "MC_Minesweeper_quick_2x3.cfg"), episodes=0, max_steps=1,
                  post_terminal=0, policies=["masked"], props=INJ_PROPS) for m in (1, 2, 4)
            ]
        return [
            c("r10c10m10", 10, 10, 10, default_ctor=True, episodes=16, max_steps=95, probe_every=2, probe_cap=100,
              policies=["safe", "masked", "mostly_masked", "safe_then_invalid", "safe_then_mine", "random"]),
            c("r4c6m4", 4, 6, 4, episodes=60, max_steps=30, policies=mixed + ["safe_then_invalid", "safe_then_mine"]),
            c("r6c4m5", 6, 4, 5, episodes=60, max_steps=30, policies=mixed + ["safe_then_mine", "safe_then_invalid"]),
            c("r2c2m1", 2, 2, 1, episodes=40, max_steps=8, policies=mixed),
            c("r2c2m3", 2, 2, 3, episodes=20, max_steps=6, policies=mixed),
            c("r2c3m2", 2, 3, 2, episodes=30, max_steps=8, policies=mixed),
            c("r3c3m0", 3, 3, 0, episodes=12, max_steps=14, policies=["safe", "masked", "random"]),
            c("r3c3m8", 3, 3, 8, episodes=40, max_steps=5, policies=["safe", "masked", "random"]),
            c("r5c5m12", 5, 5, 12, episodes=40, max_steps=30, policies=mixed + ["safe_then_mine"]),
            c("r6c6m6", 6, 6, 6, episodes=30, max_steps=40, policies=mixed + ["safe_then_invalid", "safe_then_mine"]),
            c("r8c8m10", 8, 8, 10, episodes=16, max_steps=60, probe_every=2,
              policies=mixed + ["safe_then_invalid", "safe_then_mine"]),
            c("r5c9m44", 5, 9, 44, episodes=20, max_steps=5, policies=["safe", "masked", "random"]),
            c("r16c16m40", 16, 16, 40, episodes=4, max_steps=220, probe_every=8, probe_cap=48,
              policies=["safe", "masked", "safe_then_invalid", "safe_then_mine"]),
            c("r4c6m4_rw", 4, 6, 4, rewards=(2.0, -1.0, -0.5), episodes=40, max_steps=30,
              policies=["safe", "safe_then_mine", "safe_then_invalid", "masked", "random"]),
            c("r6c4m5_rw", 6, 4, 5, rewards=(0.5, 3.0, 1.0), episodes=30, max_steps=30,
              policies=["safe", "safe_then_mine", "safe_then_invalid", "masked", "random"]),
            c("r3c5m3_rwint", 3, 5, 3, rewards=(3, -2, -1), episodes=20, max_steps=16,
              policies=["safe", "safe_then_mine", "safe_then_invalid", "masked", "random"]),
            # the narrowest shapes the generator accepts (two rows / two columns), a board of more than 127 cells
            c("r2c7m2", 2, 7, 2, episodes=20, max_steps=14, policies=mixed + ["safe_then_mine"]),
            c("r7c2m3", 7, 2, 3, episodes=20, max_steps=14, policies=mixed + ["safe_then_invalid"]),
            c("r12c20m30", 12, 20, 30, episodes=3, max_steps=215, probe_every=12, probe_cap=48,
              policies=["safe", "safe_then_invalid", "safe_then_mine"]),
            c("r5c5m3_budget3", 5, 5, 3, move_budget=3, episodes=30, max_steps=6, policies=["safe", "masked", "safe_then_mine", "safe", "random"]),
            c("r4c6m4_budget5_rw", 4, 6, 4, move_budget=5, rewards=(2.0, -1.0, -0.5), episodes=30, max_steps=8,
              policies=["safe", "safe_then_invalid", "masked", "safe"]),
            c("r6c6m6_budget1", 6, 6, 6, move_budget=1, episodes=20, max_steps=4, policies=["safe", "masked", "random"]),
        ] + [
            c(f"inj2x3_m{m}", 2, 3, m, inject=("MC_Minesweeper", "MC_Minesweeper_quick_2x3.cfg"), episodes=0, max_steps=2,
              post_terminal=0, policies=["masked"], props=INJ_PROPS) for m in (0, 1, 2, 3, 4, 5)
        ] + [
            c(f"inj3x3_m{m}", 3, 3, m, inject=("MC_Minesweeper", "MC_Minesweeper_thorough.cfg"), episodes=0, max_steps=1,
              post_terminal=0, policies=["masked"], limit=2500, props=INJ_PROPS) for m in (1, 2, 3)
        ]

    def make(self, cfg):
        from jumanji.environments import Minesweeper
        from jumanji.environments.logic.minesweeper.generator import UniformSamplingGenerator
        from jumanji.environments.logic.minesweeper.reward import DefaultRewardFn

        if cfg.get("default_ctor"):
            return Minesweeper()  # the documented defaults: 10x10, 10 mines, default reward and done functions
        kw = dict(generator=_injected_generator(cfg) if "inject" in cfg else UniformSamplingGenerator(**cfg["ctor"]))
        if cfg.get("move_budget"):
            kw["done_function"] = _budget_done_fn(cfg["move_budget"])
        if cfg.get("rewards"):
            rs, rm, ri = cfg["rewards"]
            kw["reward_function"] = DefaultRewardFn(
                revealed_empty_square_reward=rs, revealed_mine_reward=rm, invalid_action_reward=ri)
        return Minesweeper(**kw)

    def episode_key(self, cfg, ep, seed):
        if "inject" not in cfg:
            return None
        from harness import inject

        return inject.ep_key(ep)

    def cfg_record(self, cfg, env):
        rec = dict(cfg["ctor"])  # what the harness requested
        rs, rm, ri = cfg.get("rewards") or DEFAULT_REWARDS
        rec["move_budget"] = cfg.get("move_budget", 0)
        rec["reward_q"] = {"safe": jsonify.fx(rs), "mine": jsonify.fx(rm), "invalid": jsonify.fx(ri)}
        return rec

    # ---- helper views of the hidden state (only to steer play; never a judge) -------------------------
    @staticmethod
    def _cells(state):
        board = np.asarray(state.board)
        mines = np.zeros(board.size, dtype=bool)
        mines[np.asarray(state.flat_mine_locations, dtype=np.int64)] = True
        mines = mines.reshape(board.shape)
        unexplored = board == -1
        return board, mines, unexplored

    def _pick(self, env, rng, where):
        idx = np.argwhere(where)
        if len(idx) == 0:
            return None
        return np.asarray(idx[rng.integers(0, len(idx))], dtype=env.action_spec.dtype)

    def choose(self, policy, env, state, obs, rng, i):
        if policy in ("safe", "safe_then_invalid", "safe_then_mine"):
            board, mines, unexplored = self._cells(state)
            n_safe_left = int((unexplored & ~mines).sum())
            a = None
            # the deviating variants play safely for a while and then end the episode the other way
            if policy == "safe_then_invalid" and (~unexplored).any() and (rng.random() < 0.15 or n_safe_left <= 1):
                a = self._pick(env, rng, ~unexplored)
            elif policy == "safe_then_mine" and i >= 1 and (rng.random() < 0.15 or n_safe_left <= 1):
                a = self._pick(env, rng, unexplored & mines)
            if a is None:
                a = self._pick(env, rng, unexplored & ~mines)
            if a is None:
                a = self.random_actions(env, rng, 1)[0]
            return a
        return super().choose(policy, env, state, obs, rng, i)

    def probe_sample(self, env, state, obs, rng, k):
        """Boards with more than probe_cap cells: a stratified sample (explored cells, mines, safe cells)."""
        board, mines, unexplored = self._cells(state)
        groups = [np.argwhere(~unexplored), np.argwhere(unexplored & mines), np.argwhere(unexplored & ~mines)]
        share = [k // 4, k // 4, k - 2 * (k // 4)]
        out = []
        for g, n in zip(groups, share):
            if len(g):
                out.extend(g[rng.permutation(len(g))[:n]].tolist())
        seen = {tuple(x) for x in out}
        rest = [list(x) for x in np.argwhere(np.ones_like(board, dtype=bool)).tolist() if tuple(x) not in seen]
        while len(out) < k and rest:
            out.append(rest.pop(int(rng.integers(0, len(rest)))))
        return np.asarray(out, dtype=env.action_spec.dtype).reshape((len(out), 2))
