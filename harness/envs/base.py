"""Base class of the per-environment adapters.

An adapter tells the generic recorder how to build the real environment for a configuration,
how to enumerate/sample its action space, and (rarely) how to override the default projection.
Everything semantic lives in the TLA+ modules; adapters only move data.
"""
import itertools

import numpy as np

from harness import jsonify


# Time limits of the "for every value passed" sweeps (C11): primes and powers of two in the quick tier (fraction- or
# reciprocal-based arithmetic goes wrong there first), every value up to 130 in the thorough tier.
T_SWEEP_QUICK = (5, 11, 23, 41, 64, 97, 128)
T_SWEEP_THOROUGH = tuple(range(4, 131))
T_SWEEP_QUICK_FEW = (11, 41, 97)                      # for the environments that are dearer to compile
T_SWEEP_THOROUGH_FEW = tuple(range(5, 131, 4))


class EnvAdapter:
    name = "?"            # TLA+ module name: spec/env/<name>.tla, spec/trace/Trace_<name>.tla
    # property ids whose clause groups exist in Trace_<name>.tla
    props = ()
    # max number of probe actions per visited state (all actions if the space is not larger)
    probe_cap = 64
    # float_mode for state projection: "fx" fixed point, "int" round to int
    state_overrides = None
    obs_overrides = None
    drop_state = ("key",)

    # ---- configurations -------------------------------------------------------------------
    def configs(self, tier):
        """list of dicts: {"id": str, "ctor": kwargs, "episodes": n, "max_steps": n, ...}"""
        raise NotImplementedError

    def make(self, cfg):
        raise NotImplementedError

    # generator-heavy companions (C10: "for every reset key"): {config id: (resets in the quick tier, in the thorough tier)}.
    # For each named configuration a second one is derived that only resets (no steps, no probes) that many times and is
    # judged by C10 alone - low-probability generator defects (two entities on one cell for 1 key in 100) need many keys.
    gen_heavy = {}

    def all_configs(self, tier):
        out = list(self.configs(tier))
        by_id = {c["id"]: c for c in out}
        if not self.gen_heavy:
            return out
        q = self.configs("quick") if tier != "quick" else out
        for c in q:
            by_id.setdefault(c["id"], c)
        for cid, (nq, nt) in self.gen_heavy.items():
            if cid in by_id and "C10" in self.props:
                out.append(dict(by_id[cid], id=cid + "_gen", episodes=nq if tier == "quick" else nt, max_steps=0, probe_every=0,
                                policies=["random"], props=["C10"]))
        return out

    def cfg_record(self, cfg, env):
        """The TLA+ Cfg record (JSON)."""
        return dict(cfg.get("ctor", {}))

    # ---- projection -----------------------------------------------------------------------
    def project_state(self, env, state):
        return jsonify.to_json(state, drop=self.drop_state, overrides=self.state_overrides)

    def project_obs(self, env, obs):
        return jsonify.to_json(obs, drop=(), overrides=self.obs_overrides)

    # ---- actions --------------------------------------------------------------------------
    def action_space(self, env):
        """('discrete', n) or ('multi', [n1, n2, ...]) from the live action spec."""
        spec = env.action_spec
        nv = np.asarray(spec.num_values)
        if nv.ndim == 0:
            return ("discrete", int(nv))
        return ("multi", [int(x) for x in nv.reshape(-1)], tuple(nv.shape))

    def all_actions(self, env, cap=None):
        """np.ndarray of every in-spec action (dtype of the spec), or None when more than cap."""
        cap = cap or self.probe_cap
        sp = self.action_space(env)
        dt = env.action_spec.dtype
        if sp[0] == "discrete":
            if sp[1] > cap:
                return None
            return np.arange(sp[1], dtype=dt)
        total = 1
        for n in sp[1]:
            total *= n
            if total > cap:
                return None
        acts = np.array(list(itertools.product(*[range(n) for n in sp[1]])), dtype=dt)
        return acts.reshape((acts.shape[0],) + sp[2])

    def random_actions(self, env, rng, k):
        sp = self.action_space(env)
        dt = env.action_spec.dtype
        if sp[0] == "discrete":
            return rng.integers(0, sp[1], size=(k,)).astype(dt)
        cols = [rng.integers(0, n, size=(k,)) for n in sp[1]]
        return np.stack(cols, axis=1).astype(dt).reshape((k,) + sp[2])

    def env_mask(self, env, obs):
        """The implementation's own action mask (numpy bool) or None."""
        m = getattr(obs, "action_mask", None)
        return None if m is None else np.asarray(m)

    def masked_action(self, env, state, obs, rng):
        """An action the implementation's mask allows, or None if the mask is all False."""
        m = self.env_mask(env, obs)
        if m is None:
            return None
        sp = self.action_space(env)
        dt = env.action_spec.dtype
        if sp[0] == "discrete":
            idx = np.flatnonzero(m.reshape(-1))
            if len(idx) == 0:
                return None
            return np.asarray(rng.choice(idx), dtype=dt)
        nv = sp[1]
        shape = sp[2]
        if m.shape == tuple(nv):  # joint mask over a multi-dimensional action
            idx = np.flatnonzero(m.reshape(-1))
            if len(idx) == 0:
                return None
            return np.asarray(np.unravel_index(rng.choice(idx), m.shape), dtype=dt).reshape(shape)
        if m.ndim == 2 and m.shape[0] == len(nv) and all(m.shape[1] == n for n in nv):
            out = []
            for row in m:  # per-agent mask
                idx = np.flatnonzero(row)
                out.append(rng.choice(idx) if len(idx) else 0)
            return np.asarray(out, dtype=dt).reshape(shape)
        return None

    def action_json(self, a):
        a = np.asarray(a)
        return a.tolist()

    # ---- policies: name -> fn(env, state, obs, rng, step_idx) -> action -------------------
    def policies(self, tier):
        return ["random", "masked", "mostly_masked"]

    def choose(self, policy, env, state, obs, rng, i):
        if policy == "random":
            return self.random_actions(env, rng, 1)[0]
        if policy == "masked":
            a = self.masked_action(env, state, obs, rng)
            return a if a is not None else self.random_actions(env, rng, 1)[0]
        if policy == "mostly_masked":
            if rng.random() < 0.12:
                return self.random_actions(env, rng, 1)[0]
            a = self.masked_action(env, state, obs, rng)
            return a if a is not None else self.random_actions(env, rng, 1)[0]
        raise KeyError(policy)

    # ---- state injection (INJ) ------------------------------------------------------------
    def embed(self, env, template_state, abstract):
        """Build a concrete State from an abstract (JSON) state: every field present in
        `abstract` replaces the same-named field of `template_state` (dtype/shape preserved)."""
        import jax.numpy as jnp

        kw = {}
        for k, v in abstract.items():
            old = getattr(template_state, k)
            kw[k] = jnp.asarray(np.asarray(v), dtype=np.asarray(old).dtype)
        return template_state.replace(**kw) if hasattr(template_state, "replace") else template_state._replace(**kw)
