import numpy as np

from harness.envs.base import EnvAdapter


def _as_int(v):
    return int(round(float(v)))


class Adapter(EnvAdapter):
    name = "Tetris"
    props = ("C01", "C03", "C04", "C05", "C07", "C09", "C10", "C11", "C12")
    gen_heavy = {'r4c4_t3': (60, 300)}
    # score / reward are floats that only ever hold integers (sums of REWARD_LIST entries)
    state_overrides = {"score": _as_int, "reward": _as_int}

    def configs(self, tier):
        # time-limit sweep ("for every value passed", C11): one surviving episode per value, no probes
        from harness.envs.base import T_SWEEP_QUICK_FEW, T_SWEEP_THOROUGH_FEW

        ts = T_SWEEP_QUICK_FEW if tier == "quick" else T_SWEEP_THOROUGH_FEW
        return self._base_configs(tier) + [dict(id=f"r10c10_t{t}_sweep", ctor=dict(num_rows=10, num_cols=10, time_limit=t), episodes=1, max_steps=t + 2, policies=["survive"], probe_every=0, props=["C01", "C03", "C11", "C12"]) for t in ts]

    def _base_configs(self, tier):
        def c(id, rows, cols, tl, **kw):
            d = dict(id=id, ctor=dict(num_rows=rows, num_cols=cols, time_limit=tl))
            d.update(kw)
            return d

        mixed = ["masked", "random", "mostly_masked", "survive"]
        if tier == "quick":
            return [
                # default size; random play dies at once, masked play fills the grid, survive plays on
                c("r10c10_t400", 10, 10, 400, episodes=4, max_steps=45, probe_every=3, policies=mixed, default_ctor=True),
                # the default time limit reached by the line-clearing policy (probes thinned out)
                c("r10c10_t400_long", 10, 10, 400, episodes=1, max_steps=403, probe_every=45, policies=["survive"], default_ctor=True),
                c("r4c4_t3", 4, 4, 3, episodes=8, max_steps=6, policies=mixed),
                c("r4c4_t400", 4, 4, 400, episodes=6, max_steps=30, policies=["survive", "masked", "mostly_masked"]),
                c("r6c5_t7", 6, 5, 7, episodes=8, max_steps=10, policies=["survive", "masked", "survive", "random"]),
                c("r4c7_t2", 4, 7, 2, episodes=6, max_steps=5, policies=mixed),
                c("r5c4_t1", 5, 4, 1, episodes=6, max_steps=4, policies=["masked", "random", "survive"]),
                # a TALL narrow well (19 padded rows): lines are completed within a few pieces, far from the top
                c("r16c4_t400", 16, 4, 400, episodes=6, max_steps=40, policies=["survive", "masked", "well", "mostly_masked"]),
                # synthetic start positions (random fill with overhangs / a 1-wide well): the real step and mask
                # code on positions that play rarely reaches, 3- and 4-line clears included
                c("r7c4_t400_pre", 7, 4, 400, episodes=14, max_steps=6, prefilled=True, policies=["well", "masked"]),
                c("r6c6_t400_pre", 6, 6, 400, episodes=8, max_steps=4, prefilled=True, policies=["well", "masked"]),
            ]
        out = [
            c("r10c10_t400", 10, 10, 400, episodes=24, max_steps=80, probe_every=2, policies=mixed, default_ctor=True),
            c("r10c10_t400_long", 10, 10, 400, episodes=6, max_steps=403, probe_every=25, policies=["survive"]),
            c("r20c10_t400_long", 20, 10, 400, episodes=3, max_steps=403, probe_every=25, policies=["survive"]),
            c("r4c4_t3", 4, 4, 3, episodes=60, max_steps=6, policies=mixed),
            c("r4c4_t400", 4, 4, 400, episodes=40, max_steps=60, policies=["survive", "masked", "mostly_masked"]),
            c("r6c5_t7", 6, 5, 7, episodes=60, max_steps=10, policies=["survive", "masked", "survive", "random"]),
            c("r6c5_t400", 6, 5, 400, episodes=30, max_steps=80, policies=["survive", "masked", "mostly_masked"]),
            c("r4c7_t2", 4, 7, 2, episodes=40, max_steps=5, policies=mixed),
            c("r4c7_t400", 4, 7, 400, episodes=30, max_steps=60, policies=["survive", "masked", "mostly_masked"]),
            c("r7c4_t7", 7, 4, 7, episodes=40, max_steps=10, policies=mixed),
            c("r5c4_t1", 5, 4, 1, episodes=40, max_steps=4, policies=["masked", "random", "survive"]),
            c("r8c12_t3", 8, 12, 3, episodes=20, max_steps=6, policies=mixed),
            c("r16c4_t400", 16, 4, 400, episodes=30, max_steps=60, policies=["survive", "masked", "well", "mostly_masked"]),
            c("r24c5_t400", 24, 5, 400, episodes=12, max_steps=80, probe_every=2, policies=["survive", "masked", "well"]),
            c("r12c6_t60", 12, 6, 60, episodes=12, max_steps=63, probe_every=2, policies=["survive", "masked"]),
            c("r20c10_t400_well", 20, 10, 400, episodes=3, max_steps=300, probe_every=25, policies=["well"]),
            c("r7c4_t400_pre", 7, 4, 400, episodes=150, max_steps=6, prefilled=True, policies=["well", "masked"]),
            c("r6c6_t400_pre", 6, 6, 400, episodes=80, max_steps=5, prefilled=True, policies=["well", "masked"]),
            c("r10c10_t400_pre", 10, 10, 400, episodes=40, max_steps=4, prefilled=True, policies=["well", "masked"]),
            c("r5c9_t3_pre", 5, 9, 3, episodes=40, max_steps=5, prefilled=True, policies=["well", "masked", "random"]),
        ]
        return out

    def make(self, cfg):
        from jumanji.environments import Tetris

        if cfg.get("prefilled"):
            return _prefilled_cls()(**cfg["ctor"])
        if cfg.get("default_ctor"):       # the documented defaults come from the library's own no-argument constructor
            return Tetris()
        return Tetris(**cfg["ctor"])

    def cfg_record(self, cfg, env):
        from jumanji.environments.packing.tetris import constants

        rec = dict(cfg["ctor"])  # what the harness requested
        rec["prefilled"] = bool(cfg.get("prefilled", False))  # synthetic start positions (C10 does not apply)
        # the shape and reward tables are data: exported so that the trace spec can cross-check them
        # against the model's own (rotation-derived) table
        rec["tetrominoes"] = np.asarray(constants.TETROMINOES_LIST, dtype=np.int64).tolist()
        rec["reward_list"] = [int(x) for x in constants.REWARD_LIST]
        return rec

    # ---- a line-clearing policy (only to reach long episodes / the time limit; never a judge) -------
    def policies(self, tier):
        return ["masked", "random", "mostly_masked", "survive", "well"]

    def choose(self, policy, env, state, obs, rng, i):
        if policy not in ("survive", "well"):
            return super().choose(policy, env, state, obs, rng, i)
        mask = np.asarray(obs.action_mask)
        if not mask.any():
            return self.random_actions(env, rng, 1)[0]
        grid = (np.asarray(obs.grid) > 0).astype(np.int64)
        R, C = grid.shape
        rots = np.asarray(env.TETROMINOES_LIST)[int(np.asarray(state.tetromino_index))]
        # "well": keep the last column free and fill it with an upright I only when >= 3 lines clear at once
        # (to see the 300 / 1200 rewards); fall back to plain survival when the stack gets high
        keep_well = policy == "well" and grid[:5, :].sum() == 0
        best, best_a = None, None
        for k, x in zip(*np.nonzero(mask)):
            piece = np.asarray(rots[k])
            sc = _score_placement(grid, piece, int(x))
            if sc is None:
                continue
            if keep_well:
                width = int(np.nonzero(piece.sum(axis=0))[0].max()) + 1
                if x + width - 1 == C - 1:
                    ready = int(grid[:, : C - 1].all(axis=1).sum())
                    sc += 1000.0 * ready if (width == 1 and ready >= 3) else -1000.0
            sc += 1e-6 * rng.random()
            if best is None or sc > best:
                best, best_a = sc, (int(k), int(x))
        if best_a is None:
            return self.masked_action(env, state, obs, rng)
        return np.asarray(best_a, dtype=env.action_spec.dtype)


def _prefilled_cls():
    """The real Tetris whose reset starts from a synthetic position instead of the empty grid: either every
    row below a random height is full except one well column, or a random fill (overhangs, holes) with at
    least one empty cell per row.  `step` and the mask computation are untouched (inherited)."""
    import jax
    import jax.numpy as jnp
    from jumanji.environments import Tetris

    from harness import inject

    inject.need(Tetris, "_calculate_action_mask")

    class PrefilledTetris(Tetris):
        def reset(self, key):
            state, ts = super().reset(key)
            R, C = self.num_rows, self.num_cols
            k1, k2, k3, k4, k5, k6 = jax.random.split(jax.random.fold_in(key, 7), 6)
            top = jax.random.randint(k1, (), 1, R)  # rows 0..top-1 stay empty
            well_mode = jax.random.bernoulli(k2, 0.5)
            dens = jnp.where(well_mode, 2.0, jax.random.uniform(k3, (), minval=0.3, maxval=0.95))
            fill = jax.random.uniform(k4, (R, C)) < dens
            hole = jax.random.randint(k5, (R,), 0, C)
            hole = jnp.where(well_mode, hole[0], hole)
            fill = fill & (jnp.arange(C)[None, :] != hole[:, None]) & (jnp.arange(R)[:, None] >= top)
            grid_padded = jnp.zeros_like(state.grid_padded).at[:R, :C].set(fill.astype(state.grid_padded.dtype))
            # in well mode every other start holds the I piece (so that 4-line clears are among the probes)
            piece = jnp.where(well_mode & jax.random.bernoulli(k6, 0.5), 0, state.tetromino_index)
            tetromino = self.TETROMINOES_LIST[piece, 0]
            mask = self._calculate_action_mask(grid_padded, piece)
            state = state.replace(grid_padded=grid_padded, grid_padded_old=grid_padded, action_mask=mask,
                                  tetromino_index=piece, new_tetromino=tetromino, old_tetromino_rotated=tetromino)
            obs = ts.observation._replace(grid=grid_padded[:R, :C], action_mask=mask, tetromino=tetromino)
            return state, ts.replace(observation=obs)

    return PrefilledTetris


def _score_placement(grid, piece, x):
    """Heuristic value (Dellacherie's features) of dropping `piece` (4x4) at column x."""
    R, C = grid.shape
    cells = [(r, c) for r in range(4) for c in range(4) if piece[r, c]]

    def fits(y):
        return all(y + r < R and x + c < C and grid[y + r, x + c] == 0 for r, c in cells)

    if not fits(0):
        return None
    y = 0
    while fits(y + 1):
        y += 1
    g = grid.copy()
    for r, c in cells:
        g[y + r, x + c] = 1
    full = g.all(axis=1)
    lines = int(full.sum())
    eroded = lines * sum(1 for r, c in cells if full[y + r])
    ph = max(r for r, c in cells) + 1
    landing = (R - (y + ph)) + ph / 2.0
    g = np.vstack([np.zeros((lines, C), dtype=g.dtype), g[~full]])
    f = g > 0
    fp = np.pad(f, ((0, 0), (1, 1)), constant_values=True)
    row_tr = int((fp[:, 1:] != fp[:, :-1]).sum())
    fc = np.pad(f, ((0, 1), (0, 0)), constant_values=True)
    col_tr = int((fc[1:, :] != fc[:-1, :]).sum())
    heights = np.where(f.any(axis=0), R - f.argmax(axis=0), 0)
    holes = int(sum(int((~f[R - h:, c]).sum()) for c, h in enumerate(heights)))
    wells = 0
    for c in range(C):
        depth = 0
        for r in range(R):
            if not f[r, c] and (c == 0 or f[r, c - 1]) and (c == C - 1 or f[r, c + 1]):
                depth += 1
                wells += depth
            else:
                depth = 0
    return -4.5 * landing + 3.42 * eroded - 3.22 * row_tr - 9.35 * col_tr - 7.9 * holes - 3.39 * wells
