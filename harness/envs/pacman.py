"""Adapter of jumanji's PacMan: configurations (the shipped 31x28 map and small hand-written ASCII maps served
through the library's own AsciiGenerator, time limits 1, 2, 3, 7, None), a compact projection and policies.

Coordinate convention of the implementation (resolved by reading generator.py / utils.py, see PacMan.tla):
`Position.x` is the ROW index and `Position.y` the COLUMN index; the (n, 2) location arrays (ghosts, pellets,
power-ups) hold `[column, row]` pairs; a collected pellet / power-up is overwritten by `[0, 0]`.

ctor keys (interpreted by `make`, exported by `cfg_record`):
  maze        "default" (PacMan() builds AsciiGenerator(DEFAULT_MAZE) itself) or the name of a map in MAZES
  time_limit  int, or None = do not pass the argument (documented default 1000)

ASCII alphabet of the library's AsciiGenerator: 'X' wall, ' ' corridor, 'P' player start, 'G' ghost spawn (4),
'O' power-up (4), 'T' initial ghost target (4), 'S' scatter target (4).  Every non-wall cell carries a pellet.

Projection (the traces of a 31x28 board are big, so arrays are encoded losslessly but compactly):
  grid              {"shape": [R, C], "bits": [per row: sum of 2^c over the cells whose value is 1], "other": [[r, c, v]
                    for cells whose value is neither 0 nor 1]}
  pellet_locations  state: {"n": rows of the array, "gone": indices of the [0, 0] rows, "left": [col * 1000 + row for
                    the other rows, in order]};   observation: a 30-bit digest of the raw array, to be compared with
                    the state's `pellet_digest` (same function of the state's array)
State fields the clauses do not read (ghost targeting internals, visited_index, old_ghost_locations) are dropped.
"""
import zlib
from collections import deque

import numpy as np

from harness.envs.base import EnvAdapter

# the classic map, as documented ("The game takes place on a fixed map", 31 x 28); the harness' own copy
DEFAULT_MAZE = [
    "XXXXXXXXXXXXXXXXXXXXXXXXXXXX",
    "X  S         XX         S  X",
    "X XXXX XXXXX XX XXXXX XXXX X",
    "X XXXXOXXXXX XX XXXXXOXXXX X",
    "X XXXX XXXXX XX XXXXX XXXX X",
    "X                          X",
    "X XXXX XX XXXXXXXX XX XXXX X",
    "X XXXX XX XXXXXXXX XX XXXX X",
    "X      XX   TXXT   XX      X",
    "XXXXXX XXXXX XX XXXXX XXXXXX",
    "XXXXXX XXXXX XX XXXXX XXXXXX",
    "XXXXXX XXT        TXX XXXXXX",
    "XXXXXX XX XXX XXXX XX XXXXXX",
    "XXXXXX XX X  G   X XX XXXXXX",
    "           GXXXXG           ",
    "XXXXXX XX X  G   X XX XXXXXX",
    "XXXXXX XX XXX XXXX XX XXXXXX",
    "XXXXXX XX          XX XXXXXX",
    "XXXXXX XX XXXXXXXX XX XXXXXX",
    "XXXXXX XX XXXXXXXX XX XXXXXX",
    "X            XX            X",
    "X XXXX XXXXX XX XXXXX XXXX X",
    "X XXXX XXXXX XX XXXXX XXXX X",
    "X   XX S     P     S  XX   X",
    "XXX XX XX XXXXXXXX XX XX XXX",
    "XXX XX XX XXXXXXXX XX XX XXX",
    "X      XX    XX    XX      X",
    "X XXXXXXXXXX XX XXXXXXXXXX X",
    "X XXXXXXXXXX XX XXXXXXXXXX X",
    "X       O             O    X",
    "XXXXXXXXXXXXXXXXXXXXXXXXXXXX",
]

MAZES = {
    # 9 x 11, corridors on a lattice (no dead ends, ghosts spawn on junctions), row 3 is a tunnel that wraps
    "mini": ["XXXXXXXXXXX",
             "XS O G O SX",
             "X XXX XXX X",
             " G T G T G ",
             "X XXX XXX X",
             "X T     T X",
             "X XXX XXX X",
             "XS O P O SX",
             "XXXXXXXXXXX"],
    # 9 x 11, the ghosts circle in a ring of their own that the player cannot reach: the player never dies and
    # can never collect every pellet, so an episode can only end at its time limit
    "sealed": ["XXXXXXXXXXX",
               "XG T   T GX",
               "X XXXXXXX X",
               "XG T   T GX",
               "XXXXXXXXXXX",
               "XS O   O SX",
               "X XXX XXX X",
               "XS O P O SX",
               "XXXXXXXXXXX"],
    # 11 rows x 7 columns (much taller than wide), vertical tunnel in column 3 (rows 0 and 10 wrap)
    "tall": ["XXX XXX",
             "XS   SX",
             "XOX XOX",
             "XG T GX",
             "X X X X",
             "XT P TX",
             "X X X X",
             "XG T GX",
             "XOX XOX",
             "XS   SX",
             "XXX XXX"],
    # 12 rows x 11 columns: a chimney (column 4, rows 0-2 and 10-11) that leaves the board at the top and comes back at the
    # bottom, with no junction on the way; the player waits at the top of a dead end next to it, so a chasing ghost that
    # stands below the chimney climbs it and goes round the board VERTICALLY
    "chimney": ["XXXX XXPXXX",
                "XXXX XX XXX",
                "XXXX XX XXX",
                "XS OG    SX",
                "X XX X XX X",
                "X T G G T X",
                "X XX X XX X",
                "XGT  O  T X",
                "X XX X XX X",
                "XS O   O SX",
                "XXXX XXXXXX",
                "XXXX XXXXXX"],
    # a free cell on the right border whose opposite border cell is a wall (row 2), and the same vertically
    # (column 5: free in the bottom border, wall in the top border): not tunnels, the wrap target is a wall
    "halfopen": ["XXXXXXXXX",
                 "XSTO OTSX",
                 "XGX X XG ",
                 "X T P T X",
                 "XGX X XGX",
                 "XS O O SX",
                 "XXXXX XXX"],
}

DIRS = ((-1, 0), (0, -1), (1, 0), (0, 1))   # displacement (row, col) of actions 0..3 as implemented (up, left, down, right)


def _ascii(name):
    return DEFAULT_MAZE if name == "default" else MAZES[name]


def _digest(a):
    a = np.ascontiguousarray(np.asarray(a), dtype=np.int64)
    return int(zlib.crc32(repr(a.shape).encode() + a.tobytes()) & 0x3FFFFFFF)


def _enc_grid(g):
    g = np.asarray(g)
    bits = [int(sum((1 << c) for c in range(g.shape[1]) if int(g[r, c]) == 1)) for r in range(g.shape[0])]
    other = [[int(r), int(c), int(g[r, c])] for r in range(g.shape[0]) for c in range(g.shape[1])
             if int(g[r, c]) not in (0, 1)]
    return {"shape": [int(x) for x in g.shape], "bits": bits, "other": other}


def _enc_pellets(p):
    p = np.asarray(p).reshape(-1, 2)
    gone = [int(i) for i in range(p.shape[0]) if p[i, 0] == 0 and p[i, 1] == 0]
    left = [int(p[i, 0]) * 1000 + int(p[i, 1]) for i in range(p.shape[0]) if not (p[i, 0] == 0 and p[i, 1] == 0)]
    return {"n": int(p.shape[0]), "gone": gone, "left": left}


def _pos(p):
    return {"x": int(np.asarray(p.x)), "y": int(np.asarray(p.y))}


def _ints(a):
    return np.asarray(a).astype(np.int64).tolist()


def _lategame_generator(maze, keep):
    """A late-game start: every pellet is already collected (its row zeroed, as the game does) except the `keep`
    pellets nearest to the player's start - so that the 'all pellets collected' end of an episode is reached."""
    import jax.numpy as jnp

    from jumanji.environments.routing.pac_man.generator import AsciiGenerator

    R, C = len(maze), len(maze[0])
    (pr, pc), = [(r, c) for r in range(R) for c in range(C) if maze[r][c] == "P"]
    dist = {(pr, pc): 0}
    dq = deque([(pr, pc)])
    while dq:
        q = dq.popleft()
        for d in DIRS:
            n = ((q[0] + d[0]) % R, (q[1] + d[1]) % C)
            if maze[n[0]][n[1]] != "X" and n not in dist:
                dist[n] = dist[q] + 1
                dq.append(n)
    near = sorted((d, rc) for rc, d in dist.items() if d >= 1)[:keep]
    kept = {(rc[1], rc[0]) for _, rc in near}          # pellet rows are [column, row]

    class LateGame(AsciiGenerator):
        def __call__(self, key):
            st = super().__call__(key)
            locs = np.asarray(st.pellet_locations)
            mask = np.array([(int(a), int(b)) in kept for a, b in locs])
            return st.replace(pellet_locations=jnp.asarray(locs * mask[:, None], dtype=st.pellet_locations.dtype),
                              pellets=jnp.array(int(mask.sum()), jnp.int32))

    return LateGame(maze)


def _c(cid, maze, tl, **kw):
    return dict(id=cid, ctor=dict(maze=maze, time_limit=tl), **kw)


POL = ["explore", "random", "mostly_masked", "explore"]


class Adapter(EnvAdapter):
    name = "PacMan"
    props = ("C01", "C03", "C04", "C05", "C07", "C10", "C11", "C12")
    probe_cap = 5

    def configs(self, tier):
        # time-limit sweep ("for every value passed", C11) on the maze whose ghosts are sealed in (the player cannot die)
        from harness.envs.base import T_SWEEP_QUICK_FEW, T_SWEEP_THOROUGH_FEW

        ts = T_SWEEP_QUICK_FEW if tier == "quick" else T_SWEEP_THOROUGH_FEW
        q = tier == "quick"
        # late-game starts (3 / 1 / 5 pellets left, near the player): the episode ends because every pellet is collected
        late = [_c(f"{mz}_late{k}", mz, tl, lategame=k, episodes=(3 if q else 10), max_steps=k + 8, policies=["eat", "eat", "explore"],
                   props=["C01", "C03", "C04", "C05", "C07", "C11", "C12"])
                for mz, k, tl in (("sealed", 3, None), ("sealed", 1, 7), ("mini", 5, None))]
        return self._base_configs(tier) + late + [_c(f"sealed_t{t}_sweep", "sealed", t, episodes=1, max_steps=t + 2, policies=["explore"],
                                              probe_every=0, props=["C01", "C03", "C11", "C12"]) for t in ts]

    def _base_configs(self, tier):
        if tier == "quick":
            return [
                _c("default_tnone", "default", None, episodes=4, max_steps=45, policies=["dive", "explore", "random", "border"]),
                _c("default_t7", "default", 7, episodes=2, max_steps=10, policies=["explore", "random"]),
                _c("mini_tnone", "mini", None, episodes=6, max_steps=60, policies=POL),
                _c("tall_t3", "tall", 3, episodes=4, max_steps=6, policies=POL),
                _c("chimney_tnone", "chimney", None, episodes=2, max_steps=16, policies=["idle", "explore"]),
                _c("halfopen_tnone", "halfopen", None, episodes=4, max_steps=30, policies=["border", "explore", "random"]),
                _c("sealed_t1", "sealed", 1, episodes=3, max_steps=4, policies=POL),
                _c("sealed_t2", "sealed", 2, episodes=3, max_steps=5, policies=POL),
                _c("sealed_t3", "sealed", 3, episodes=3, max_steps=6, policies=POL),
                _c("sealed_t7", "sealed", 7, episodes=2, max_steps=10, policies=POL),
                # the documented default limit is reached only where the player cannot die: 1000 steps, sparse probes
                _c("sealed_tnone", "sealed", None, episodes=1, max_steps=1003, probe_every=50, policies=["explore"]),
            ]
        out = [_c("default_tnone", "default", None, episodes=12, max_steps=160,
                  policies=["dive", "explore", "random", "mostly_masked", "border", "masked"])]
        for tl in (1, 2, 3, 7):
            out.append(_c(f"default_t{tl}", "default", tl, episodes=4, max_steps=tl + 3, policies=POL))
        out.append(_c("chimney_tnone", "chimney", None, episodes=8, max_steps=40, policies=["idle", "explore", "idle", "random"]))
        for mz in ("mini", "tall", "halfopen", "sealed"):
            for tl in (1, 2, 3, 7, None):
                pol = ["border"] + POL if mz == "halfopen" else POL
                if tl is None:
                    out.append(_c(f"{mz}_tnone", mz, None, episodes=12, max_steps=120, policies=pol))
                else:
                    out.append(_c(f"{mz}_t{tl}", mz, tl, episodes=8, max_steps=tl + 3, policies=pol))
        out.append(_c("sealed_tnone_long", "sealed", None, episodes=3, max_steps=1003, probe_every=25,
                      policies=["explore", "random", "mostly_masked"]))
        return out

    # ---- the real environment ------------------------------------------------------------------
    def make(self, cfg):
        from jumanji.environments.routing.pac_man.env import PacMan
        from jumanji.environments.routing.pac_man.generator import AsciiGenerator

        ct = cfg["ctor"]
        kw = {}
        if ct["time_limit"] is not None:
            kw["time_limit"] = ct["time_limit"]
        if ct["maze"] != "default":
            kw["generator"] = AsciiGenerator(list(MAZES[ct["maze"]]))
        if cfg.get("lategame"):
            kw["generator"] = _lategame_generator(list(_ascii(ct["maze"])), cfg["lategame"])
        return PacMan(**kw)

    def cfg_record(self, cfg, env):
        """What the harness REQUESTED: the map (parsed here from the ASCII diagram, independently of the library's
        parser) and the time limit (documented default 1000 when the argument is not passed)."""
        ct = cfg["ctor"]
        rows = _ascii(ct["maze"])
        find = lambda ch: [[r, c] for r, line in enumerate(rows) for c, x in enumerate(line) if x == ch]  # noqa: E731
        tl = ct["time_limit"]
        return dict(maze=ct["maze"], rows=len(rows), cols=len(rows[0]),
                    walls=[[1 if x == "X" else 0 for x in line] for line in rows],
                    player_start=find("P")[0], ghost_spawns=find("G"), power_ups=find("O"),
                    time_limit_given=tl is not None, time_limit=1000 if tl is None else tl, scatter_time=30)

    # ---- projection ----------------------------------------------------------------------------
    def project_state(self, env, s):
        return {
            "grid": _enc_grid(s.grid),
            "pellets": int(np.asarray(s.pellets)),
            "pellet_locations": _enc_pellets(s.pellet_locations),
            "pellet_digest": _digest(s.pellet_locations),
            "power_up_locations": _ints(s.power_up_locations),
            "player_locations": _pos(s.player_locations),
            "initial_player_locations": _pos(s.initial_player_locations),
            "ghost_locations": _ints(s.ghost_locations),
            "initial_ghost_positions": _ints(s.initial_ghost_positions),
            "frightened_state_time": int(np.asarray(s.frightened_state_time)),
            "last_direction": int(np.asarray(s.last_direction)),
            "dead": bool(np.asarray(s.dead)),
            "ghost_starts": _ints(s.ghost_starts),
            "ghost_eaten": [bool(x) for x in np.asarray(s.ghost_eaten).reshape(-1)],
            "step_count": int(np.asarray(s.step_count)),
            "score": int(np.asarray(s.score)),
        }

    def project_obs(self, env, o):
        return {
            "grid": _enc_grid(o.grid),
            "player_locations": _pos(o.player_locations),
            "ghost_locations": _ints(o.ghost_locations),
            "power_up_locations": _ints(o.power_up_locations),
            "frightened_state_time": int(np.asarray(o.frightened_state_time)),
            "pellet_locations": _digest(o.pellet_locations),
            "action_mask": [bool(x) for x in np.asarray(o.action_mask).reshape(-1)],
            "score": int(np.asarray(o.score)),
        }

    # ---- policies ------------------------------------------------------------------------------
    @staticmethod
    def _free(grid, rc):
        return int(grid[rc[0] % grid.shape[0], rc[1] % grid.shape[1]]) == 1

    def _moves(self, state):
        grid = np.asarray(state.grid)
        p = (int(state.player_locations.x), int(state.player_locations.y))
        ok = [a for a, d in enumerate(DIRS) if self._free(grid, (p[0] + d[0], p[1] + d[1]))]
        return grid, p, ok

    def _toward(self, grid, p, goal):
        """First action of a shortest path p -> goal (BFS from the goal over free cells, with wrap), or None."""
        R, C = grid.shape
        dist = {goal: 0}
        dq = deque([goal])
        while dq:
            q = dq.popleft()
            for d in DIRS:
                n = ((q[0] + d[0]) % R, (q[1] + d[1]) % C)
                if int(grid[n]) == 1 and n not in dist:
                    dist[n] = dist[q] + 1
                    dq.append(n)
        best = None
        for a, d in enumerate(DIRS):
            n = ((p[0] + d[0]) % R, (p[1] + d[1]) % C)
            if int(grid[n]) == 1 and n in dist and (best is None or dist[n] < best[0]):
                best = (dist[n], a)
        return None if best is None else best[1]

    def choose(self, policy, env, state, obs, rng, i):
        dt = env.action_spec.dtype
        if policy == "idle":         # the player never moves (the ghosts come to it)
            return np.asarray(4, dtype=dt)
        if policy == "explore":
            # keep walking (prefer not to turn back), sometimes bump into a wall or play the no-op
            grid, p, ok = self._moves(state)
            u = rng.random()
            if u < 0.08:
                return np.asarray(4, dtype=dt)
            if u < 0.2 or not ok:
                return self.random_actions(env, rng, 1)[0]
            last = int(np.asarray(state.last_direction))
            fwd = [a for a in ok if last not in (0, 1, 2, 3) or a != (last + 2) % 4]
            return np.asarray(rng.choice(fwd or ok), dtype=dt)
        if policy == "eat":          # shortest path to the nearest pellet that is left
            grid, p, ok = self._moves(state)
            locs = np.asarray(state.pellet_locations).reshape(-1, 2)
            left = [(int(b), int(a)) for a, b in locs if not (a == 0 and b == 0)]
            best = None
            for g in left:
                if g == p:
                    continue
                a = self._toward(grid, p, g)
                if a is not None:
                    d = abs(g[0] - p[0]) + abs(g[1] - p[1])
                    if best is None or d < best[0]:
                        best = (d, a)
            if best is not None:
                return np.asarray(best[1], dtype=dt)
            return np.asarray(rng.choice(ok), dtype=dt) if ok else self.random_actions(env, rng, 1)[0]
        if policy == "dive":
            # head for the bottom corridor of the map (largest row index that has a free cell), then wander there
            grid, p, ok = self._moves(state)
            R = grid.shape[0]
            row = max(r for r in range(R) if grid[r].any())
            cols = [c for c in range(grid.shape[1]) if grid[row, c] == 1]
            goal = (row, cols[len(cols) // 2])
            if p[0] < row:
                a = self._toward(grid, p, goal)
                if a is not None:
                    return np.asarray(a, dtype=dt)
            return np.asarray(rng.choice(ok), dtype=dt) if ok else self.random_actions(env, rng, 1)[0]
        if policy == "border":
            # walk to a free border cell and push against the edge of the map
            grid, p, ok = self._moves(state)
            R, C = grid.shape
            border = [(r, c) for r in range(R) for c in range(C) if grid[r, c] == 1 and (r in (0, R - 1) or c in (0, C - 1))]
            if not border:
                return self.random_actions(env, rng, 1)[0]
            goal = border[(i // 10) % len(border)]
            if p == goal:
                out = [a for a, d in enumerate(DIRS) if not (0 <= p[0] + d[0] < R and 0 <= p[1] + d[1] < C)]
                return np.asarray(rng.choice(out), dtype=dt)
            a = self._toward(grid, p, goal)
            return np.asarray(a, dtype=dt) if a is not None else self.random_actions(env, rng, 1)[0]
        return super().choose(policy, env, state, obs, rng, i)
