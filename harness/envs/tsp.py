"""TSP adapter: configurations (sizes 1..20, both reward functions, uniform and lattice generators), the
independent float64 distance matrix `D` exported with every projected state, completion / revisit policies."""
import numpy as np

from harness import jsonify
from harness.envs.base import EnvAdapter

FX = 65536

# ---- lattice instances: integral point sets scaled by a power of two --------------------------------------
# "rect": the 3-4-5 rectangle (0,0) (3,0) (0,4) (3,4) (diagonals 5), optionally doubled, on the grid k/8.
# "apex": points (x, 60) on a base line with x*x + 60*60 a perfect square (x = 0, +-11, +-25, ...), plus the
#         two apexes (0, 0) and (0, 120) at distance 60 from the line, on the grid k/512.  Every pairwise
#         distance is an integer number of grid steps, so coordinates, squared differences, norms and every
#         partial sum of a tour are exact in float32 and exact multiples of `unit` in the x * 65536 export.
_APEX_H = 60
_APEX_XS = [x for x in range(1, 176) if int(round((x * x + _APEX_H * _APEX_H) ** 0.5)) ** 2 == x * x + _APEX_H * _APEX_H]
_APEX_X0 = max(_APEX_XS)
_APEX_POOL = ([(_APEX_X0 + sx * x, _APEX_H) for x in _APEX_XS for sx in (-1, 1)]
              + [(_APEX_X0, _APEX_H), (_APEX_X0, 0), (_APEX_X0, 2 * _APEX_H)])
LATTICES = {
    # family: (pool of integer points, grid size S (coordinates = k / S), extent of the pool)
    "rect": ([(0, 0), (3, 0), (0, 4), (3, 4)], 8, 4),
    "apex": (_APEX_POOL, 512, 2 * _APEX_X0),
}


def lattice_unit(family):
    return FX // LATTICES[family][1]


def _lattice_generator(num_cities, family):
    """Custom generator following jumanji's Generator interface: `num_cities` distinct points of an integral
    point set (random subset, random order, random axis swap, random integer translation, and for "rect" a
    random scale 1 or 2), divided by the grid size."""
    import jax
    import jax.numpy as jnp

    from jumanji.environments.routing.tsp.generator import Generator
    from jumanji.environments.routing.tsp.types import State

    pool, size, extent = LATTICES[family]
    assert num_cities <= len(pool), (num_cities, family)
    pool = np.asarray(pool, np.int32)
    # off-line points (the apexes) are drawn preferentially so that small instances are rarely collinear
    weights = np.where(pool[:, 1] == _APEX_H, 1.0, 8.0) if family == "apex" else np.ones(len(pool))
    weights = (weights / weights.sum()).astype(np.float32)

    class LatticeGenerator(Generator):
        def __call__(self, key):
            key, kperm, kswap, kscale, koff = jax.random.split(key, 5)
            idx = jax.random.choice(kperm, pool.shape[0], (self.num_cities,), replace=False, p=jnp.asarray(weights))
            pts = jnp.asarray(pool)[idx]
            scale = jax.random.randint(kscale, (), 1, 3) if family == "rect" else jnp.int32(1)
            pts = pts * scale
            pts = jnp.where(jax.random.bernoulli(kswap), pts[:, ::-1], pts)
            off = jax.random.randint(koff, (2,), 0, size - extent * scale + 1)
            coordinates = (pts + off[None, :]).astype(jnp.float32) / jnp.float32(size)
            from harness import inject
            from jumanji.environments.routing.tsp.generator import UniformGenerator

            return inject.state_like(
                UniformGenerator(num_cities=self.num_cities)(key),
                coordinates=coordinates,
                position=jnp.array(-1, jnp.int32),
                visited_mask=jnp.zeros(self.num_cities, dtype=bool),
                trajectory=jnp.full(self.num_cities, -1, jnp.int32),
                num_visited=jnp.array(0, jnp.int32),
                key=key,
            )

    return LatticeGenerator(num_cities)


def distance_matrix(coordinates):
    """Independent Euclidean distance matrix: float64 NumPy from the raw (float32) coordinates, as fixed point."""
    c = np.asarray(coordinates).astype(np.float64)
    d = c[:, None, :] - c[None, :, :]
    return np.rint(np.sqrt((d * d).sum(axis=-1)) * FX).astype(np.int64)


def _c(id, gen, n, rew, episodes, policies, **kw):
    d = dict(id=id, ctor=dict(generator=gen, num_cities=n, reward_fn=rew), episodes=episodes, max_steps=n + 3,
             policies=policies)
    d.update(kw)
    return d


class Adapter(EnvAdapter):
    name = "TSP"
    props = ("C01", "C03", "C04", "C05", "C06", "C08", "C09", "C10", "C11", "C12")
    gen_heavy = {'u6_dense': (60, 300), 'u3_sparse': (60, 300)}

    def configs(self, tier):
        full = ["masked", "nearest", "revisit_at_end", "mostly_masked", "random", "revisit_current"]
        if tier == "quick":
            return [
                # default size (TSP-v1): 20 cities, uniform, dense; 20 probes from every second state
                _c("u20_dense", "uniform", 20, "dense", 4, ["masked", "nearest", "revisit_at_end", "mostly_masked"], probe_every=2,
                   default_ctor=True),
                _c("u20_sparse", "uniform", 20, "sparse", 3, ["nearest", "masked", "revisit_at_end"], probe_every=3),
                _c("u6_dense", "uniform", 6, "dense", 8, full),
                _c("u6_sparse", "uniform", 6, "sparse", 8, full),
                _c("u3_dense", "uniform", 3, "dense", 8, full),
                _c("u3_sparse", "uniform", 3, "sparse", 8, full),
                _c("u2_sparse", "uniform", 2, "sparse", 4, full),
                _c("u1_dense", "uniform", 1, "dense", 4, ["masked", "random"]),
                # exact arithmetic (integral point sets)
                _c("l20_sparse", "apex", 20, "sparse", 3, ["masked", "nearest", "revisit_at_end"], probe_every=3),
                _c("l20_dense", "apex", 20, "dense", 2, ["nearest", "masked"], probe_every=4),
                _c("l6_dense", "apex", 6, "dense", 8, full),
                _c("l6_sparse", "apex", 6, "sparse", 8, full),
                _c("l4_dense", "rect", 4, "dense", 8, full),
                _c("l3_sparse", "rect", 3, "sparse", 8, full),
            ]
        out = []
        for gen, g in (("uniform", "u"), ("apex", "l")):
            for n, eps, pe in ((3, 60, 1), (6, 48, 1), (10, 24, 1), (20, 12, 2)):
                for rew in ("dense", "sparse"):
                    out.append(_c(f"{g}{n}_{rew}", gen, n, rew, eps, full, probe_every=pe))
        for n, rew in ((1, "dense"), (1, "sparse"), (2, "dense"), (2, "sparse"), (4, "sparse")):
            out.append(_c(f"u{n}_{rew}", "uniform", n, rew, 24, full))
        for n, rew in ((2, "dense"), (3, "dense"), (3, "sparse"), (4, "dense"), (4, "sparse")):
            out.append(_c(f"r{n}_{rew}", "rect", n, rew, 48, full))
        for c in out:       # the registered default is built by the library's own no-argument constructor
            if c["id"] == "u20_dense":
                c["default_ctor"] = True
        return out

    # ---- the real environment -------------------------------------------------------------
    def _build(self, ctor, rew):
        from jumanji.environments.routing.tsp import TSP
        from jumanji.environments.routing.tsp.generator import UniformGenerator
        from jumanji.environments.routing.tsp.reward import DenseReward, SparseReward

        n, gen = ctor["num_cities"], ctor["generator"]
        generator = UniformGenerator(num_cities=n) if gen == "uniform" else _lattice_generator(n, gen)
        return TSP(generator=generator, reward_fn=DenseReward() if rew == "dense" else SparseReward())

    def make(self, cfg):
        if cfg.get("default_ctor"):       # the documented defaults come from the library's own no-argument constructor
            from jumanji.environments.routing.tsp import TSP

            return TSP()
        return self._build(cfg["ctor"], cfg["ctor"]["reward_fn"])

    def make_alt(self, cfg):
        return self._build(cfg["ctor"], "sparse" if cfg["ctor"]["reward_fn"] == "dense" else "dense")

    def cfg_record(self, cfg, env):
        c = cfg["ctor"]
        lat = c["generator"] != "uniform"
        # what the harness REQUESTED
        return {"num_cities": c["num_cities"], "reward_fn": c["reward_fn"],
                "generator": "lattice" if lat else "uniform", "family": c["generator"],
                "exact": lat, "unit": lattice_unit(c["generator"]) if lat else 1}

    # ---- projection: jumanji's State fields plus the independent distance matrix ------------
    def project_state(self, env, state):
        d = jsonify.to_json(state, drop=self.drop_state, overrides=self.state_overrides)
        d["D"] = distance_matrix(state.coordinates).tolist()
        return d

    # ---- policies --------------------------------------------------------------------------
    def choose(self, policy, env, state, obs, rng, i):
        dt = env.action_spec.dtype
        m = np.asarray(obs.action_mask)
        if policy == "nearest":
            # nearest unvisited city (first step: random): completes the tour
            pos = int(np.asarray(obs.position))
            if m.any() and pos >= 0:
                c = np.asarray(obs.coordinates, dtype=np.float64)
                d = np.where(m, np.hypot(*(c - c[pos]).T), np.inf)
                return np.asarray(int(np.argmin(d)), dtype=dt)
            return super().choose("masked", env, state, obs, rng, i)
        if policy == "revisit_at_end":
            # valid play until one city is left, then an already visited city (where dense would close the tour)
            if m.sum() == 1 and (~m).any():
                return np.asarray(int(rng.choice(np.flatnonzero(~m))), dtype=dt)
            return super().choose("masked", env, state, obs, rng, i)
        if policy == "revisit_current":
            # valid play, then at a random moment stay where we are
            pos = int(np.asarray(obs.position))
            if pos >= 0 and rng.random() < 0.3:
                return np.asarray(pos, dtype=dt)
            return super().choose("masked", env, state, obs, rng, i)
        return super().choose(policy, env, state, obs, rng, i)
