"""Projection of jumanji pytrees (State, Observation, TimeStep) to JSON-able data for TLC.

The projection is a pure function of the returned pytree and uses jumanji's own field names, so
the TLA+ specifications talk about `s.board`, `s.step_count`, ... exactly as the docs do.

Encodings (DESIGN.md 3.3):
  bool arrays   -> JSON booleans
  int arrays    -> JSON ints (must stay < 2^31 for TLC; larger values are clamped to +-BIG)
  float arrays  -> fixed point: round(x * 2^16) (clamped to +-BIG; nan -> NAN, +-inf -> +-INF)
  PRNG keys (`key` fields) are dropped from the projection (opaque; handled by C02/C13 digests).
"""
import dataclasses
import hashlib

import numpy as np

FX = 65536
BIG = 2 ** 30
INF = BIG + 1
NAN = BIG + 7


def fx(x):
    """float -> fixed-point int (python int)."""
    x = float(x)
    if x != x:
        return NAN
    if x == float("inf"):
        return INF
    if x == float("-inf"):
        return -INF
    v = int(round(x * FX))
    return max(-BIG, min(BIG, v))


def _arr(a, float_mode="fx"):
    a = np.asarray(a)
    if a.dtype == np.bool_:
        return a.tolist()
    if np.issubdtype(a.dtype, np.integer):
        if a.dtype == np.uint32 or a.dtype == np.uint64 or a.dtype == np.int64:
            a = np.clip(a.astype(np.int64) if a.dtype != np.uint64 else a.astype(np.float64), -BIG, BIG).astype(np.int64)
        return a.tolist()
    if np.issubdtype(a.dtype, np.floating):
        af = a.astype(np.float64)
        if float_mode == "int":
            return np.rint(af).astype(np.int64).tolist()
        with np.errstate(invalid="ignore", over="ignore"):
            v = np.rint(af * FX)
        v = np.where(np.isnan(af), NAN, v)
        v = np.where(np.isposinf(af), INF, v)
        v = np.where(np.isneginf(af), -INF, v)
        v = np.clip(v, -NAN, NAN)
        return v.astype(np.int64).tolist()
    raise TypeError(f"unsupported dtype {a.dtype}")


def is_namedtuple(x):
    return isinstance(x, tuple) and hasattr(x, "_fields")


def to_json(x, drop=("key",), float_mode="fx", overrides=None, _path=""):
    """Recursively convert a pytree to JSON-able data keeping field names.

    overrides: {dotted_path: callable(value)->json} for env-specific encodings.
    """
    if overrides and _path in overrides:
        return overrides[_path](x)
    if x is None:
        return "none"
    if dataclasses.is_dataclass(x) and not isinstance(x, type):
        out = {}
        for f in dataclasses.fields(x):
            if f.name in drop:
                continue
            out[f.name] = to_json(getattr(x, f.name), drop, float_mode, overrides,
                                  f"{_path}.{f.name}" if _path else f.name)
        return out
    if is_namedtuple(x):
        out = {}
        for n in x._fields:
            if n in drop:
                continue
            out[n] = to_json(getattr(x, n), drop, float_mode, overrides, f"{_path}.{n}" if _path else n)
        return out
    if isinstance(x, dict):
        return {str(k): to_json(v, drop, float_mode, overrides, f"{_path}.{k}" if _path else str(k))
                for k, v in x.items() if k not in drop}
    if isinstance(x, (list, tuple)):
        return [to_json(v, drop, float_mode, overrides, f"{_path}[{i}]") for i, v in enumerate(x)]
    if isinstance(x, (bool, np.bool_)):
        return bool(x)
    if isinstance(x, (int, np.integer)):
        return int(x)
    if isinstance(x, float):
        return fx(x)
    return _arr(x, float_mode)


def tree_index(tree, i):
    """Index every array leaf of a (numpy-converted) batched pytree at position i."""
    import jax

    return jax.tree_util.tree_map(lambda a: np.asarray(a)[i], tree)


def to_numpy(tree):
    import jax

    return jax.tree_util.tree_map(lambda a: np.asarray(a), tree)


def digest(tree):
    """Canonical byte digest of a pytree: structure, dtypes, shapes and bytes of every leaf."""
    import jax

    leaves, treedef = jax.tree_util.tree_flatten(tree)
    h = hashlib.sha256()
    h.update(str(treedef).encode())
    for lf in leaves:
        a = np.asarray(lf)
        h.update(str(a.dtype).encode() + str(a.shape).encode())
        h.update(np.ascontiguousarray(a).tobytes())
    return h.hexdigest()[:24]


def leaf_summaries(tree, full_below=0):
    """Per-leaf summary for C01 membership: path, dtype, shape, min, max (and data when small).

    Floats are reported as exact fixed-point when representable, plus an IEEE-754 ordinal pair
    (hi, lo 16-bit limbs of the monotone int32 image of the float32) for exact bound comparisons.
    """
    import jax

    out = []
    flat = jax.tree_util.tree_flatten_with_path(tree)[0]
    for path, lf in flat:
        a = np.asarray(lf)
        p = jax.tree_util.keystr(path)
        rec = {"path": p, "dtype": str(a.dtype), "shape": list(a.shape)}
        if a.size == 0:
            rec["empty"] = True
            rec["lo"] = 0
            rec["hi"] = 0
            rec["nan"] = False
        elif a.dtype == np.bool_:
            rec["empty"] = False
            rec["lo"] = int(a.min())
            rec["hi"] = int(a.max())
            rec["nan"] = False
        elif np.issubdtype(a.dtype, np.integer):
            rec["empty"] = False
            rec["lo"] = int(np.clip(int(a.min()), -BIG, BIG))
            rec["hi"] = int(np.clip(int(a.max()), -BIG, BIG))
            rec["nan"] = False
        else:
            rec["empty"] = False
            af = a.astype(np.float64)
            rec["nan"] = bool(np.isnan(af).any())
            with np.errstate(invalid="ignore"):
                rec["lo"] = ford(np.nanmin(af)) if not np.isnan(af).all() else 0
                rec["hi"] = ford(np.nanmax(af)) if not np.isnan(af).all() else 0
        out.append(rec)
    return out


def ford(x):
    """Monotone integer image of a float (via its float32 bits) as a python int within int32 range:
    order-preserving and injective on float32 values (-0.0 and +0.0 both map to 0)."""
    f = np.float32(x)
    b = int(np.frombuffer(np.float32(f).tobytes(), dtype=np.int32)[0])
    if b < 0:
        b = -(b & 0x7FFFFFFF)
    return b
