import json,sys
tag, focus = sys.argv[1], sys.argv[2]
WT=f"/tmp/wt_mut_{tag}"; OUT=f"/tmp/mut/{tag}"
props=""
for l in open("/verif/properties.jsonl"):
    d=json.loads(l)
    props += f"\n{d['id']} - {d['title']}: {d['statement']}\n"
print(f"""You are helping to evaluate a verification framework for the open-source library instadeepai/jumanji (JAX reinforcement-learning environments). You have your own scratch git worktree of the repository at {WT}. Run Python as
  cd {WT} && JAX_PLATFORMS=cpu HF_HUB_OFFLINE=1 PYTHONPATH={WT} /venv/bin/python ...
so that YOUR worktree (not /repo) is imported. No network. Do NOT modify /repo, do NOT read or touch /verif; work only inside {WT} and {OUT}. Other processes use the CPUs; be patient.

The framework claims to decide the 19 semantic properties listed below, and it must NEVER raise an alarm on code for which the properties still hold. YOUR TASK is the opposite of bug seeding: produce 12 INDEPENDENT, realistic, BENIGN source changes - changes a maintainer would make and that keep ALL 19 properties true - in order to test the framework for false alarms. Each change alone, 3-40 changed lines, library source only (not tests). Make them as varied as possible. Focus for your batch: {focus}.
Kinds of benign change to draw from: refactors that keep observable behaviour identical (vectorising a loop, replacing lax.cond by jnp.where/select or the reverse, inlining or extracting helpers, RENAMING private helpers/attributes (leading underscore) or local variables, reordering independent computations, using a different but equivalent formula); changes of UNSPECIFIED behaviour that no property constrains (which random instance a given key maps to - e.g. an extra split or a different sampling primitive in a generator while the instance distribution's advertised invariants are kept; extra entries in `extras`; an additional bookkeeping field in a State dataclass; a different internal dtype of a private bookkeeping field; docstrings/comments/error messages; viewer/render code; different but still valid default values only where no property or documentation fixes them - be careful here).
For each change i = 01..12:
  1. start from a clean tree (`git -C {WT} checkout -- .`), apply your edit,
  2. run the touched package's tests (`/venv/bin/python -m pytest -q -p no:cacheprovider --timeout=900 <paths>`; for shared modules also jumanji/wrappers_test.py jumanji/specs_test.py jumanji/tree_utils_test.py jumanji/testing; ignore network-only failures such as Sokoban's dataset download / test_registration__make which also fail on the clean tree); they must pass,
  3. argue in two sentences why every one of the 19 properties still holds (be honest: if in doubt, drop the change and pick another),
  4. save `git -C {WT} diff` as {OUT}/<i>.diff and append one JSON line to {OUT}/index.jsonl: {{"i": "<i>", "env": "<EnvironmentClassName or module>", "file": "<path>", "what": "<one sentence>", "why_benign": "<one or two sentences>", "observable_difference": "<none | what differs (e.g. instance per key)>"}},
  5. restore the clean tree.
Leave the worktree clean at the end. Final message: the list of the 12 changes, one line each.

THE 19 PROPERTIES:
{props}""")
