#!/bin/sh
# tools/test_seed.sh <seed dir> <property> <envs>  -> prints VIOLATION lines (or MISSED)
D="$1"; P="$2"; E="$3"
OUT=$(VERIF_JOBS=${VERIF_JOBS:-8} /verif/tools/try_patch.sh "$D/patch.diff" /verif/check "$P" --envs "$E" 2>&1 | grep -v conda)
echo "$OUT" | grep "VIOLATION" | cut -c1-230 | head -6
echo "$OUT" | grep -q "VIOLATION" && echo "RESULT $D $P: CAUGHT" || { echo "RESULT $D $P: MISSED"; echo "$OUT" | tail -3 | cut -c1-300; }
