import json,sys
pids, tag, files, tests = sys.argv[1].split(","), sys.argv[2], sys.argv[3], sys.argv[4]
WT=f"/tmp/wt_mut_{tag}"; OUT=f"/tmp/mut/{tag}"
props = ""
for pid in pids:
    d=json.load(open(f"/tmp/props/{pid}.json"))
    props += f"\nPROPERTY {pid} ({d['title']}):\n{d['statement']}\nQuantified over: {d['quantifier']['text']}\n"
print(f"""You are helping to evaluate a verification framework for the open-source library instadeepai/jumanji (JAX reinforcement-learning environments). You have your own scratch git worktree of the repository at {WT}. Run Python as
  cd {WT} && JAX_PLATFORMS=cpu HF_HUB_OFFLINE=1 PYTHONPATH={WT} /venv/bin/python ...
so that YOUR worktree (not /repo) is imported. No network. Do NOT modify /repo, do NOT read or touch /verif; work only inside {WT} and {OUT}. Other processes use the CPUs; be patient.
{props}
YOUR TASK: a small MUTATION CAMPAIGN on {files}. Produce 14 INDEPENDENT small source changes (each one alone, 1-6 changed lines, library source only - not tests), as varied as possible (different functions / branches / arguments), each of which breaks one of the properties above for SOME valid use, and each of the kind a maintainer could plausibly slip in during a refactor or 'fix'. Prefer changes that need something specific to show (a non-default argument, a particular sequence of calls, a boundary value, an unusual but valid input) over ones the first smoke call exposes - but a mix is fine. For each change i = 01..14:
  1. start from a clean tree (`git -C {WT} checkout -- .`), apply your edit,
  2. check it imports and that the existing tests still pass: `/venv/bin/python -m pytest -q -p no:cacheprovider --timeout=900 {tests}` (ignore network-only failures such as test_registration__make / Sokoban's dataset download, which also fail on the clean tree); if tests fail, pick another edit,
  3. convince yourself with a few lines of Python that a property is really violated (write down how),
  4. save `git -C {WT} diff` as {OUT}/<i>.diff and append one JSON line to {OUT}/index.jsonl: {{"i": "<i>", "property": "<Cxx>", "file": "<path>", "what": "<one sentence: what was changed>", "needs": "<one or two sentences: which call sequence / arguments show the violation>"}},
  5. restore the clean tree.
Leave the worktree clean at the end. Your final message: the list of the 14 changes (one line each, with the property each breaks) and anything you could not do.""")
