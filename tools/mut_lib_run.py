#!/usr/bin/env python3
"""run lib-property mutants: each index line names its property"""
import json, os, re, subprocess, sys, concurrent.futures as cf
tag = sys.argv[1]; D=f"/tmp/mut/{tag}"
idx = {str(json.loads(l)["i"]).zfill(2): json.loads(l) for l in open(f"{D}/index.jsonl") if l.strip()}
def run(i):
    prop = idx[i]["property"][:3]
    p = subprocess.run(["/verif/tools/try_patch.sh", f"{D}/{i}.diff", "/verif/check", prop], capture_output=True, text=True, cwd="/verif",
                       env=dict(os.environ, VERIF_JOBS="6"))
    out = p.stdout + p.stderr
    viol = [x for x in out.splitlines() if x.startswith("VIOLATION")]
    cl = sorted({re.search(r"clause=(\S+)", v).group(1) for v in viol if "clause=" in v})
    print(("CAUGHT " if viol else "MISSED ") + f"{tag}/{i} {prop} rc={p.returncode} " + ",".join(cl[:4]) + " | " + idx[i]["what"][:110], flush=True)
    return {"i": i, "prop": prop, "caught": bool(viol), "rc": p.returncode, "clauses": cl[:8], "what": idx[i]["what"], "needs": idx[i]["needs"]}
ids = sorted(idx)
with cf.ThreadPoolExecutor(int(sys.argv[2]) if len(sys.argv) > 2 else 2) as ex:
    res = list(ex.map(run, ids))
json.dump(res, open(f"{D}/results.json", "w"), indent=1)
print("caught", sum(r["caught"] for r in res), "of", len(res))
