#!/usr/bin/env python3
"""Regenerates the generated blocks of DESIGN.md (seeded-change ledger, findings ledger) from /verif/seeded and
known_findings.json. Blocks are delimited by <!-- BEGIN:name --> / <!-- END:name -->."""
import glob, json, os, re
V = "/verif"
def block(name, text, s):
    b, e = f"<!-- BEGIN:{name} -->", f"<!-- END:{name} -->"
    if b not in s:
        s += f"\n{b}\n{e}\n"
    return re.sub(re.escape(b) + r".*?" + re.escape(e), b + "\n" + text + "\n" + e, s, flags=re.S)
rows = ["| id | property | what the change does / what it needs to manifest | checks that catch it |", "|---|---|---|---|"]
for d in sorted(glob.glob(V + "/seeded/*")):
    m = json.load(open(d + "/meta.json"))
    rows.append("| %s | %s | %s — needs: %s | %s |" % (os.path.basename(d), m.get("property"), str(m.get("title", "")).replace("|", "/")[:220],
                str(m.get("what_it_needs_to_manifest", "")).replace("|", "/").replace("\n", " ")[:260], str(m.get("checks_that_catch_it", "")).replace("|", "/")))
seeded = "\n".join(rows)
f = json.load(open(V + "/known_findings.json"))["findings"]
rows = ["| id | property | status | commit | what |", "|---|---|---|---|---|"]
for x in f:
    rows.append("| %s | %s | %s | %s | %s |" % (x["id"], x["property"], x["status"], x.get("commit", ""), x["what"].replace("|", "/")[:400]))
s = open(V + "/DESIGN.md").read()
s = block("seeded", seeded, s)
s = block("findings", "\n".join(rows), s)
open(V + "/DESIGN.md", "w").write(s)
print("ok")
