#!/usr/bin/env python3
"""Regenerates the generated blocks of DESIGN.md (seeded-change ledger, findings ledger) from /verif/seeded and
known_findings.json. Blocks are delimited by <!-- BEGIN:name --> / <!-- END:name -->."""
import glob, json, os, re
V = "/verif"
def block(name, text, s):
    b, e = f"<!-- BEGIN:{name} -->", f"<!-- END:{name} -->"
    if b not in s:
        s += f"\n{b}\n{e}\n"
    return re.sub(re.escape(b) + r".*?" + re.escape(e), b + "\n" + text + "\n" + e, s, flags=re.S)
rows = ["| id | property | what the change does / what it needs to manifest | checks that catch it |", "|---|---|---|---|"]
for d in sorted(x for x in glob.glob(V + "/seeded/*") if os.path.exists(x + "/meta.json")):
    m = json.load(open(d + "/meta.json"))
    rows.append("| %s | %s | %s — needs: %s | %s |" % (os.path.basename(d), m.get("property"), str(m.get("title", "")).replace("|", "/")[:220],
                str(m.get("what_it_needs_to_manifest", "")).replace("|", "/").replace("\n", " ")[:260], str(m.get("checks_that_catch_it", "")).replace("|", "/")))
seeded = "\n".join(rows)
f = json.load(open(V + "/known_findings.json"))["findings"]
frows = ["| id | property | status | commit | what |", "|---|---|---|---|---|"]
for x in f:
    frows.append("| %s | %s | %s | %s | %s |" % (x["id"], x["property"], x["status"], x.get("commit", ""), x["what"].replace("|", "/")[:400]))
rows = ["| property | tier | events judged (applicable) | distinct (state, action) cases | TLC states (MC + trace) | traces validated | MC runs | wall s |",
        "|---|---|---|---|---|---|---|---|"]
for f2 in sorted(glob.glob(V + "/evidence/C*.json")):
    e = json.load(open(f2)); c = e["coverage"]
    rows.append("| %s | %s | %s | %s | %s | %s | %s | %s |" % (e["property_id"], e["tier"], c.get("evaluations"), c.get("distinct_nontrivial"),
                c.get("states"), c.get("traces_validated_against_impl"), len(c.get("mc_runs", [])), e.get("wall_s")))
coverage = "\n".join(rows)
mrows = ["| campaign | property | mutants | caught at the first run | caught after strengthening | what the misses led to |", "|---|---|---|---|---|---|"]
for d in sorted(glob.glob(V + "/seeded/mutants/*/campaign.json")):
    c = json.load(open(d))
    ms = c["mutants"]
    late = [m for m in ms if m["caught_after"]]
    never = [m for m in ms if not m["caught_first_run"] and not m["caught_after"]]
    mrows.append("| %s | %s | %d | %d | %d%s | %s |" % (c["tag"], c["property"], len(ms), sum(m["caught_first_run"] for m in ms), len(late),
                 (" (%d not caught)" % len(never)) if never else "",
                 "; ".join("%s (%s): %s" % (m["i"], m.get("env") or m.get("property"), m["caught_after"].replace("|", "/")) for m in late)
                 + ("; NOT CAUGHT: " + "; ".join("%s %s" % (m["i"], m["what"][:120].replace("|", "/")) for m in never) if never else "")))
s = open(V + "/DESIGN.md").read()
s = block("mutants", "\n".join(mrows), s)
s = block("seeded", seeded, s)
s = block("findings", "\n".join(frows), s)
s = block("coverage", coverage, s)
open(V + "/DESIGN.md", "w").write(s)
print("ok")
