#!/usr/bin/env python3
"""tools/archive_seed.py <src_dir> <dst_id> <property> <caught_by_json_or_text> : keep a confirmed seeded change under /verif/seeded/<id>/"""
import json, os, shutil, sys
src, dst_id, prop, caught = sys.argv[1:5]
dst = os.path.join("/verif/seeded", dst_id)
os.makedirs(dst, exist_ok=True)
for f in ("patch.diff", "demo.py"):
    shutil.copy(os.path.join(src, f), os.path.join(dst, f))
meta = json.load(open(os.path.join(src, "meta.json")))
meta["property"] = prop
meta["checks_that_catch_it"] = caught
meta["what_was_run"] = sys.argv[5] if len(sys.argv) > 5 else ""
json.dump(meta, open(os.path.join(dst, "meta.json"), "w"), indent=1)
print("archived", dst)
