#!/bin/sh
# tools/r3_archive.sh <tag> <prop> <dst_id> [note] : archive an evaluated sub-agent change and remove its worktree
T=$1; P=$2; ID=$3; NOTE=$4; D=/tmp/seedout/$T
CL=$(python3 -c "import json;r=json.load(open('$D/result.json'));print(('./check $P: '+', '.join(r['clauses'][:8])) if r['caught'] else 'MISSED')")
python3 /verif/tools/archive_seed.py $D $ID $P "$CL${NOTE:+. $NOTE}" "tools/r3_eval.sh: demo exit 0 on /repo, non-zero with the patch; tools/seedtest.py (scratch worktree via VERIF_REPO): $(python3 -c "import json;print(json.load(open('$D/result.json'))['cmd'])")"
cp $D/result.json /verif/seeded/$ID/result.json
git -C /repo worktree remove --force /tmp/wt_r3_$T 2>/dev/null
