#!/usr/bin/env python3
"""benign changes: run EVERY property check that has a clause group for the touched environment (or the lib props for shared modules);
any VIOLATION or machinery error is a false alarm"""
import json, os, re, subprocess, sys, concurrent.futures as cf
tag = sys.argv[1]; D=f"/tmp/mut/{tag}"
sys.path.insert(0, "/verif")
from harness import envcheck
ads = {a.name: a for a in envcheck.load_adapters()}
PKG2ENV = {"game_2048": "Game2048", "graph_coloring": "GraphColoring", "minesweeper": "Minesweeper", "rubiks_cube": "RubiksCube",
           "sliding_tile_puzzle": "SlidingTile", "sudoku": "Sudoku", "bin_pack": "BinPack", "flat_pack": "FlatPack",
           "job_shop": "JobShop", "knapsack": "Knapsack", "tetris": "Tetris", "cleaner": "Cleaner", "connector": "Connector",
           "cvrp": "CVRP", "lbf": "LBF", "maze": "Maze", "mmst": "MMST", "multi_cvrp": "MultiCVRP", "pac_man": "PacMan",
           "robot_warehouse": "RobotWarehouse", "snake": "Snake", "sokoban": "Sokoban", "tsp": "TSP"}
LIBN = {"LBF": "LevelBasedForaging", "SlidingTile": "SlidingTilePuzzle"}
idx = {str(json.loads(l)["i"]).zfill(2): json.loads(l) for l in open(f"{D}/index.jsonl") if l.strip()}
jobs = []
for i in sorted(idx):
    diff = open(f"{D}/{i}.diff").read()
    files = re.findall(r"^\+\+\+ b/(\S+)", diff, flags=re.M)
    envs = set()
    shared = False
    for f in files:
        m = re.search(r"jumanji/environments/\w+/(\w+)/", f)
        if m and m.group(1) in PKG2ENV: envs.add(PKG2ENV[m.group(1)])
        elif f.startswith("jumanji/") and "/environments/" not in f: shared = True
    if envs:
        for e in envs:
            for p in ads[e].props:
                jobs.append((i, p, e))
            for p in ("C02", "C13", "C14", "C15"):
                jobs.append((i, p, LIBN.get(e, e)))
    if shared:
        for p in ("C13", "C14", "C15", "C16", "C18", "C19", "C03"):
            jobs.append((i, p, None if p != "C03" else "TimeStepCtor,Maze,Snake"))
def run(j):
    i, p, e = j
    cmd = ["/verif/tools/try_patch.sh", f"{D}/{i}.diff", "/verif/check", p] + (["--envs", e] if e else [])
    r = subprocess.run(cmd, capture_output=True, text=True, cwd="/verif", env=dict(os.environ, VERIF_JOBS="5"))
    out = r.stdout + r.stderr
    bad = [x for x in out.splitlines() if x.startswith("VIOLATION") or "MACHINERY" in x]
    print(("ALARM " if bad or r.returncode not in (0,) else "quiet ") + f"{tag}/{i} {p} {e} rc={r.returncode} " + (bad[0][:220] if bad else ""), flush=True)
    return {"i": i, "prop": p, "env": e, "rc": r.returncode, "alarm": bad[:3]}
with cf.ThreadPoolExecutor(3) as ex:
    res = list(ex.map(run, jobs))
json.dump(res, open(f"{D}/results.json", "w"), indent=1)
print("alarms", sum(1 for r in res if r["alarm"] or r["rc"] != 0), "of", len(res), "runs")
