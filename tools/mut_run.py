#!/usr/bin/env python3
"""tools/mut_run.py <tag> <prop> [parallel] : run the registered check of <prop> (restricted to the touched environment)
against every mutant /tmp/mut/<tag>/NN.diff (scratch worktrees); writes /tmp/mut/<tag>/results.jsonl."""
import concurrent.futures as cf
import json
import os
import re
import subprocess
import sys

tag, prop = sys.argv[1], sys.argv[2]
par = int(sys.argv[3]) if len(sys.argv) > 3 else 3
D = f"/tmp/mut/{tag}"
ALIAS = {"LevelBasedForaging": "LBF", "SlidingTilePuzzle": "SlidingTile", "Game2048": "Game2048"}
PKG2ENV = {"game_2048": "Game2048", "graph_coloring": "GraphColoring", "minesweeper": "Minesweeper", "rubiks_cube": "RubiksCube",
           "sliding_tile_puzzle": "SlidingTile", "sudoku": "Sudoku", "bin_pack": "BinPack", "flat_pack": "FlatPack",
           "job_shop": "JobShop", "knapsack": "Knapsack", "tetris": "Tetris", "cleaner": "Cleaner", "connector": "Connector",
           "cvrp": "CVRP", "lbf": "LBF", "maze": "Maze", "mmst": "MMST", "multi_cvrp": "MultiCVRP", "pac_man": "PacMan",
           "robot_warehouse": "RobotWarehouse", "snake": "Snake", "sokoban": "Sokoban", "tsp": "TSP"}
idx = {}
for ln in open(os.path.join(D, "index.jsonl")):
    ln = ln.strip()
    if ln:
        e = json.loads(ln)
        idx[str(e["i"]).zfill(2)] = e


def run(i):
    diff = os.path.join(D, f"{i}.diff")
    envs = set()
    for f in re.findall(r"^\+\+\+ b/(\S+)", open(diff).read(), flags=re.M):
        m = re.search(r"jumanji/environments/\w+/(\w+)/", f)
        if m and m.group(1) in PKG2ENV:
            envs.add(PKG2ENV[m.group(1)])
        if "commons/maze_utils" in f:
            envs |= {"Maze", "Cleaner"}
    cmd = ["/verif/tools/try_patch.sh", diff, "/verif/check", prop] + (["--envs", ",".join(sorted(envs))] if envs else [])
    env = dict(os.environ, VERIF_JOBS=os.environ.get("VERIF_JOBS", "5"))
    p = subprocess.run(cmd, capture_output=True, text=True, env=env, cwd="/verif")
    out = p.stdout + p.stderr
    viol = [x for x in out.splitlines() if x.startswith("VIOLATION")]
    clauses = sorted({re.search(r"clause=(\S+)", v).group(1) for v in viol if "clause=" in v})
    mach = [x for x in out.splitlines() if "MACHINERY" in x]
    r = {"i": i, "envs": sorted(envs), "caught": bool(viol), "rc": p.returncode, "clauses": clauses[:8], "machinery": mach[:2],
         "what": idx.get(i, {}).get("what", ""), "needs": idx.get(i, {}).get("needs", "")}
    print(("CAUGHT " if viol else "MISSED ") + f"{tag}/{i} {','.join(sorted(envs))} rc={p.returncode} " + ",".join(clauses[:4]), flush=True)
    return r


ids = sorted(f[:-5] for f in os.listdir(D) if f.endswith(".diff"))
with cf.ThreadPoolExecutor(par) as ex:
    res = list(ex.map(run, ids))
with open(os.path.join(D, "results.jsonl"), "w") as f:
    for r in res:
        f.write(json.dumps(r) + "\n")
print("caught", sum(r["caught"] for r in res), "of", len(res))
