#!/usr/bin/env python3
"""tools/seedtest.py <seed_dir> <property> [--in-repo]
Runs the registered check of <property> against the seeded change in <seed_dir>/patch.diff.
Default: in a scratch worktree (VERIF_REPO), so /repo stays untouched while other processes use it.
--in-repo: apply in /repo itself, run, and undo straight afterwards (final confirmation).
Environment-family properties are restricted (--envs) to the environments whose package the patch touches.
Prints CAUGHT/MISSED and writes <seed_dir>/result.json."""
import json
import os
import re
import subprocess
import sys

PKG2ENV = {"game_2048": "Game2048", "graph_coloring": "GraphColoring", "minesweeper": "Minesweeper", "rubiks_cube": "RubiksCube",
           "sliding_tile_puzzle": "SlidingTile", "sudoku": "Sudoku", "bin_pack": "BinPack", "flat_pack": "FlatPack",
           "job_shop": "JobShop", "knapsack": "Knapsack", "tetris": "Tetris", "cleaner": "Cleaner", "connector": "Connector",
           "cvrp": "CVRP", "lbf": "LBF", "maze": "Maze", "mmst": "MMST", "multi_cvrp": "MultiCVRP", "pac_man": "PacMan",
           "robot_warehouse": "RobotWarehouse", "snake": "Snake", "sokoban": "Sokoban", "tsp": "TSP"}
LIBNAME = {"LBF": "LevelBasedForaging", "SlidingTile": "SlidingTilePuzzle"}
ENV_PROPS = {"C01", "C03", "C04", "C05", "C06", "C07", "C08", "C09", "C10", "C11", "C12", "C17"}


def main():
    d, prop = sys.argv[1], sys.argv[2]
    in_repo = "--in-repo" in sys.argv
    d = os.path.abspath(d)
    patch = os.path.join(d, "patch.diff")
    files = re.findall(r"^\+\+\+ b/(\S+)", open(patch).read(), flags=re.M)
    envs = set()
    for f in files:
        m = re.search(r"jumanji/environments/\w+/(\w+)/", f)
        if m and m.group(1) in PKG2ENV:
            envs.add(PKG2ENV[m.group(1)])
        if "commons/maze_utils" in f:
            envs |= {"Maze", "Cleaner"}
    cmd = ["/verif/check", prop]
    if envs:
        names = set(envs)
        if prop not in ENV_PROPS:
            names = {LIBNAME.get(e, e) for e in envs} | {e.split(".")[0] for e in envs}
        cmd += ["--envs", ",".join(sorted(names))]
    env = dict(os.environ)
    env.setdefault("VERIF_JOBS", "8")
    if in_repo:
        subprocess.run(["git", "-C", "/repo", "apply", patch], check=True)
        try:
            p = subprocess.run(cmd, capture_output=True, text=True, env=env, cwd="/verif")
        finally:
            subprocess.run(["git", "-C", "/repo", "checkout", "--", "."], check=True)
    else:
        p = subprocess.run(["/verif/tools/try_patch.sh", patch] + cmd, capture_output=True, text=True, env=env, cwd="/verif")
    out = p.stdout + p.stderr
    viol = [ln for ln in out.splitlines() if ln.startswith("VIOLATION")]
    clauses = sorted({re.search(r"clause=(\S+)", v).group(1) for v in viol if "clause=" in v})
    res = {"property": prop, "envs": sorted(envs), "cmd": " ".join(cmd), "caught": bool(viol), "rc": p.returncode,
           "clauses": clauses, "in_repo": in_repo, "n_violation_lines": len(viol)}
    json.dump(res, open(os.path.join(d, "result.json"), "w"), indent=1)
    print(("CAUGHT " if viol else "MISSED ") + d + " " + prop + " envs=" + ",".join(sorted(envs)) + " clauses=" + ",".join(clauses[:6]))
    if not viol:
        print("\n".join(out.splitlines()[-6:])[:1200])


if __name__ == "__main__":
    main()
