#!/usr/bin/env python3
"""tools/mut_archive.py <tag> <prop> [note] : keep a mutation campaign (/tmp/mut/<tag>: NN.diff, index.jsonl, results) under
/verif/seeded/mutants/<tag>/ as campaign.json + the diffs."""
import json, os, shutil, sys
tag, prop = sys.argv[1], sys.argv[2]
note = sys.argv[3] if len(sys.argv) > 3 else ""
src, dst = f"/tmp/mut/{tag}", f"/verif/seeded/mutants/{tag}"
os.makedirs(dst, exist_ok=True)
idx = {str(json.loads(l)["i"]).zfill(2): json.loads(l) for l in open(f"{src}/index.jsonl") if l.strip()}
res = {}
if os.path.exists(f"{src}/results.jsonl"):
    res = {r["i"]: r for r in map(json.loads, open(f"{src}/results.jsonl"))}
elif os.path.exists(f"{src}/results.json"):
    res = {r["i"]: r for r in json.load(open(f"{src}/results.json"))}
fixed = json.load(open(f"{src}/fixed.json")) if os.path.exists(f"{src}/fixed.json") else {}
rows = []
for i in sorted(idx):
    shutil.copy(f"{src}/{i}.diff", f"{dst}/{i}.diff")
    r = res.get(i, {})
    rows.append({"i": i, "property": idx[i].get("property", prop), "env": idx[i].get("env", ""), "what": idx[i]["what"], "needs": idx[i]["needs"],
                 "caught_first_run": bool(r.get("caught")), "clauses": r.get("clauses", []),
                 "caught_after": fixed.get(i, "")})
json.dump({"tag": tag, "property": prop, "note": note, "mutants": rows}, open(f"{dst}/campaign.json", "w"), indent=1)
print(tag, sum(r["caught_first_run"] for r in rows), "of", len(rows), "caught at first run;", len([r for r in rows if r["caught_after"]]), "after strengthening")
