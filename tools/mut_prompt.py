import json,sys
pid, tag, focus = sys.argv[1], sys.argv[2], sys.argv[3]
d=json.load(open(f"/tmp/props/{pid}.json"))
WT=f"/tmp/wt_mut_{tag}"; OUT=f"/tmp/mut/{tag}"
print(f"""You are helping to evaluate a verification framework for the open-source library instadeepai/jumanji (JAX reinforcement-learning environments). You have your own scratch git worktree of the repository at {WT}. Run Python as
  cd {WT} && JAX_PLATFORMS=cpu HF_HUB_OFFLINE=1 PYTHONPATH={WT} /venv/bin/python ...
so that YOUR worktree (not /repo) is imported. No network. Do NOT modify /repo, do NOT read or touch /verif; work only inside {WT} and {OUT}. Other processes use the CPUs; be patient.

THE PROPERTY ({pid}: {d['title']}):
{d['statement']}
Quantified over: {d['quantifier']['text']}

YOUR TASK: a small MUTATION CAMPAIGN. Produce 14 INDEPENDENT small source changes (each one alone, 1-5 changed lines, in library source - not tests), spread over at least 10 DIFFERENT environments, each of which breaks this property for SOME valid configuration / state, and each of the kind a maintainer could plausibly slip in. Focus: {focus}.
Prefer changes that need something specific to show (a non-square or non-default configuration, a boundary step, a particular multi-step situation) over ones any smoke run exposes - but a mix is fine. For each change i = 01..14:
  1. start from a clean tree (`git -C {WT} checkout -- .`), apply your edit,
  2. check it imports and that the touched environment's own test directory still passes (`/venv/bin/python -m pytest -q -p no:cacheprovider --timeout=900 jumanji/environments/<pkg>/<env>`; ignore network-only failures such as Sokoban's dataset download); if the tests fail, pick another edit,
  3. convince yourself with a few lines of Python that the property is really violated for some configuration/state (write down which),
  4. save `git -C {WT} diff` as {OUT}/<i>.diff and append one JSON line to {OUT}/index.jsonl: {{"i": "<i>", "env": "<EnvironmentClassName>", "file": "<path>", "what": "<one sentence: what was changed>", "needs": "<one or two sentences: which configuration / state / step shows the violation>"}},
  5. restore the clean tree.
Leave the worktree clean at the end. Your final message: the list of the 14 changes (env, one line each) and anything you could not do.""")
