#!/bin/sh
# tools/full_run.sh <seed> <tier> : run all 19 registered checks sequentially, log rc + verdict lines
SEED=${1:-0}; TIER=${2:-quick}
mkdir -p /verif/.cache/logs
OUT=/verif/.cache/logs/full_${TIER}_seed${SEED}.txt
: > $OUT
for p in C03 C04 C05 C06 C07 C08 C09 C10 C11 C12 C17 C01 C02 C13 C14 C15 C16 C18 C19; do
  s=$(date +%s)
  VERIF_SEED=$SEED /verif/check $p --tier $TIER > /verif/.cache/logs/run_${p}_${SEED}.out 2> /verif/.cache/logs/run_${p}_${SEED}.err
  rc=$?
  echo "$p rc=$rc wall=$(( $(date +%s) - s ))s" >> $OUT
  grep "VIOLATION\|MACHINERY" /verif/.cache/logs/run_${p}_${SEED}.out /verif/.cache/logs/run_${p}_${SEED}.err | cut -c1-300 >> $OUT
done
echo DONE >> $OUT
