#!/bin/sh
# tools/full_run.sh <seed> <tier> [props...] : run the registered checks sequentially from the directory this script
# lives in (so that a `vp run` snapshot uses its own copy); rc + verdict lines go to .cache/logs/full_<tier>_seed<seed>.txt
HERE="$(cd "$(dirname "$0")/.." && pwd)"
SEED=${1:-0}; TIER=${2:-quick}
if [ $# -ge 2 ]; then shift 2; else shift $#; fi
PROPS=${*:-C03 C04 C05 C06 C07 C08 C09 C10 C11 C12 C17 C01 C02 C13 C14 C15 C16 C18 C19}
mkdir -p "$HERE/.cache/logs"
OUT="$HERE/.cache/logs/full_${TIER}_seed${SEED}.txt"
: > "$OUT"
for p in $PROPS; do
  s=$(date +%s)
  VERIF_SEED=$SEED "$HERE/check" $p --tier $TIER > "$HERE/.cache/logs/run_${p}_${SEED}.out" 2> "$HERE/.cache/logs/run_${p}_${SEED}.err"
  rc=$?
  echo "$p rc=$rc wall=$(( $(date +%s) - s ))s" >> "$OUT"
  grep "VIOLATION\|MACHINERY\|KNOWN-FINDING" "$HERE/.cache/logs/run_${p}_${SEED}.out" "$HERE/.cache/logs/run_${p}_${SEED}.err" | cut -c1-300 >> "$OUT"
done
echo DONE >> "$OUT"
