#!/usr/bin/env python3
"""tools/confirm_seed.py <seeded/ID>  - re-confirm one kept seeded change end to end, in a scratch worktree:
  1. demo.py on the unchanged /repo           -> exit 0
  2. demo.py with the patch applied           -> exit != 0
  3. the repository's tests of the touched packages with the patch -> pass (network-only tests ignored)
  4. the registered check of the property     -> VIOLATION (exit 1)
Writes seeded/ID/confirmed.json."""
import json
import os
import re
import subprocess
import sys
import tempfile

sys.path.insert(0, os.path.dirname(os.path.abspath(__file__)))
NETWORK_TESTS = ("sokoban", "test_registration__make")


def run(cmd, env=None, cwd=None, timeout=3600):
    p = subprocess.run(cmd, capture_output=True, text=True, env=env, cwd=cwd, timeout=timeout)
    return p.returncode, p.stdout + p.stderr


def main():
    d = os.path.abspath(sys.argv[1])
    meta = json.load(open(os.path.join(d, "meta.json")))
    prop = meta["property"][:3]
    patch = os.path.join(d, "patch.diff")
    files = re.findall(r"^\+\+\+ b/(\S+)", open(patch).read(), flags=re.M)
    base_env = dict(os.environ, JAX_PLATFORMS="cpu", HF_HUB_OFFLINE="1")
    res = {"property": prop}
    rc, out = run(["/venv/bin/python", "-W", "ignore", os.path.join(d, "demo.py")], env=dict(base_env, PYTHONPATH="/repo"), cwd="/tmp")
    res["demo_unpatched_rc"] = rc
    wt = tempfile.mkdtemp(prefix="confirm_", dir="/tmp")
    os.rmdir(wt)
    subprocess.run(["git", "-C", "/repo", "worktree", "add", "--detach", wt, "HEAD"], check=True, capture_output=True)
    try:
        subprocess.run(["git", "-C", wt, "apply", patch], check=True)
        rc, out = run(["/venv/bin/python", "-W", "ignore", os.path.join(d, "demo.py")], env=dict(base_env, PYTHONPATH=wt), cwd="/tmp")
        res["demo_patched_rc"] = rc
        # tests of the touched packages
        targets = set()
        for f in files:
            m = re.match(r"(jumanji/environments/\w+/\w+)/", f)
            if m:
                targets.add(m.group(1))
            elif f.startswith("jumanji/environments/commons"):
                targets.add("jumanji/environments/commons")
                targets.add("jumanji/environments/routing/maze")
                targets.add("jumanji/environments/routing/cleaner")
            elif f.startswith("jumanji/") and f.endswith(".py"):
                t = f[:-3] + "_test.py"
                if os.path.exists(os.path.join(wt, t)):
                    targets.add(t)
                if "testing/pytrees" in f or "tree_utils" in f or "specs" in f:
                    targets.update(["jumanji/specs_test.py", "jumanji/tree_utils_test.py", "jumanji/testing/pytrees_test.py", "jumanji/wrappers_test.py"])
        cmd = ["/venv/bin/python", "-m", "pytest", "-q", "-p", "no:cacheprovider", "--timeout=900"] + sorted(targets)
        rc, out = run(cmd, env=dict(base_env, PYTHONPATH=wt), cwd=wt)
        failed = re.findall(r"^(?:FAILED|ERROR) (\S+)", out, flags=re.M)
        real = [t for t in failed if not any(n in t for n in NETWORK_TESTS)]
        m = re.search(r"(\d+) passed", out)
        res["tests"] = {"cmd": " ".join(cmd[2:]), "passed": int(m.group(1)) if m else 0, "failed_not_network": real,
                        "failed_network_only": len(failed) - len(real)}
    finally:
        subprocess.run(["git", "-C", "/repo", "worktree", "remove", "--force", wt], capture_output=True)
    rc, out = run(["/verif/tools/seedtest.py", d, prop], env=dict(os.environ, VERIF_JOBS=os.environ.get("VERIF_JOBS", "4")))
    r = json.load(open(os.path.join(d, "result.json")))
    res["check"] = {"cmd": r["cmd"], "caught": r["caught"], "clauses": r["clauses"][:10]}
    res["confirmed"] = bool(res["demo_unpatched_rc"] == 0 and res["demo_patched_rc"] != 0 and not res["tests"]["failed_not_network"]
                            and res["tests"]["passed"] > 0 and r["caught"])
    json.dump(res, open(os.path.join(d, "confirmed.json"), "w"), indent=1)
    print(("CONFIRMED " if res["confirmed"] else "NOT-CONFIRMED ") + os.path.basename(d) + " " + json.dumps(res)[:300])


if __name__ == "__main__":
    main()
