#!/bin/sh
# tools/try_patch.sh <patch.diff> <command...>   : run a command against a scratch worktree of /repo with the patch applied
# (VERIF_REPO points the checks at the worktree). Used while other processes are using /repo; the final
# confirmation of a seeded change is done in /repo itself (git apply; run; git checkout -- .).
set -e
P="$1"; shift
WT=/tmp/try_$$_wt
git -C /repo worktree add --detach "$WT" HEAD >/dev/null 2>&1
trap 'git -C /repo worktree remove --force "$WT" >/dev/null 2>&1 || true' EXIT
git -C "$WT" apply "$P"
VERIF_REPO="$WT" "$@"
