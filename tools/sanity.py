#!/venv/bin/python
"""tools/sanity.py : every adapter's configuration matrix builds in both tiers with unique ids (run before committing)."""
import sys

sys.path.insert(0, "/verif")
from harness import envcheck  # noqa: E402

for ad in envcheck.load_adapters():
    for t in ("quick", "thorough"):
        ids = [c["id"] for c in ad.all_configs(t)]
        assert len(ids) == len(set(ids)), (ad.name, t, sorted({i for i in ids if ids.count(i) > 1}))
print("sanity ok")
