import json,sys
pid, tag, focus = sys.argv[1], sys.argv[2], sys.argv[3]
d=json.load(open(f"/tmp/props/{pid}.json"))
WT=f"/tmp/wt_r3_{tag}"; OUT=f"/tmp/seedout/{tag}"
print(f"""You are helping to evaluate a verification framework for the open-source library instadeepai/jumanji (a suite of JAX reinforcement-learning environments with a common Environment/spec API and wrappers). You have your own scratch git worktree of the repository at {WT}. Run Python as
  cd {WT} && JAX_PLATFORMS=cpu HF_HUB_OFFLINE=1 PYTHONPATH={WT} /venv/bin/python ...
so that YOUR worktree (not /repo) is imported - check once with  -c 'import jumanji; print(jumanji.__file__)'. There is no network. Do NOT modify /repo, do NOT read or touch /verif, and work only inside {WT} and {OUT}. Other processes are using the machine's CPUs, so tests may be slow; be patient and run only the tests you need.

THE PROPERTY ({pid}: {d['title']}):
{d['statement']}
Quantified over: {d['quantifier']['text']}

YOUR TASK: produce ONE realistic change to the library source (not its tests) - the kind of slip a maintainer could plausibly introduce in a refactor, optimisation, 'simplification' or bug fix - that BREAKS this property, such that
 (a) the code still imports and runs,
 (b) the repository's existing tests of the touched package(s) still pass, unedited (run pytest on the relevant directories/files in your worktree, e.g.  /venv/bin/python -m pytest -q -p no:cacheprovider --timeout=900 jumanji/environments/<pkg>/<env> ; if you touch shared modules such as jumanji/wrappers.py, specs.py, env.py, types.py, tree_utils.py, registration.py also run the matching jumanji/*_test.py files; tests that need the network, e.g. Sokoban's dataset download, may fail both with and without your change - ignore those),
 (c) the violation needs something SPECIFIC to manifest: a particular multi-step sequence of operations, an unusual but in-spec input or constructor configuration, a boundary step (time limit, completion, last node/item), or two cooperating sites that each look fine alone. It must NOT be something that ordinary default use or a single smoke step would expose at once.
Focus for this change (to get variety across several people doing the same exercise): {focus}. If, after looking at the code, nothing suitable exists there, pick another place that the property covers.

DELIVERABLES, in {OUT}/ :
 - patch.diff : `git -C {WT} diff` of your source change (source files only, no tests, no new untracked files unless needed by the change).
 - demo.py : a standalone script, run as `PYTHONPATH=<tree> JAX_PLATFORMS=cpu /venv/bin/python demo.py`, that exits 0 on the unmodified tree (PYTHONPATH=/repo, read-only use is fine) and exits non-zero with a short message on the modified tree. It must test the property itself with an independently computed expectation (not a hard-coded hash or a comparison with a saved output).
 - meta.json : {{"property": "{pid}", "title": "<one line: what the change does>", "what_it_needs_to_manifest": "<a paragraph>", "files_changed": [...], "tests_run": "<commands and results>"}}
Confirm yourself that demo.py exits 0 with PYTHONPATH=/repo and non-zero with PYTHONPATH={WT}, and that the package tests pass with your change. Leave the worktree with the change applied (uncommitted). In your final message give: the title, what it needs to manifest, the tests you ran with their results, and the two demo exit codes.""")
