#!/bin/sh
# tools/r3_eval.sh <tag> <prop> : evaluate a sub-agent's seeded change in /tmp/seedout/<tag> (worktree /tmp/wt_r3_<tag>):
# demo on /repo (want 0), demo on the changed worktree (want != 0), then the registered check against the patch.
T=$1; P=$2; D=/tmp/seedout/$T; WT=/tmp/wt_r3_$T
cd /tmp
JAX_PLATFORMS=cpu HF_HUB_OFFLINE=1 PYTHONPATH=/repo /venv/bin/python -W ignore $D/demo.py >/dev/null 2>&1; r0=$?
JAX_PLATFORMS=cpu HF_HUB_OFFLINE=1 PYTHONPATH=$WT /venv/bin/python -W ignore $D/demo.py >/dev/null 2>&1; r1=$?
echo "DEMO $T unpatched_rc=$r0 patched_rc=$r1"
git -C $WT diff > $D/patch.check.diff
cmp -s $D/patch.diff $D/patch.check.diff || { echo "NOTE patch.diff differs from worktree diff; using worktree diff"; cp $D/patch.check.diff $D/patch.diff; }
VERIF_JOBS=${VERIF_JOBS:-6} /verif/tools/seedtest.py $D $P 2>&1 | grep -v conda | cut -c1-400
