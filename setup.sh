#!/bin/sh
# Offline setup: nothing to build. Creates scratch dirs and checks the toolchain is present.
set -e
cd "$(dirname "$0")"
mkdir -p .cache/work evidence/replays
/venv/bin/python -c "import jax, jumanji" 
java -cp /opt/veriftools/tla/tla2tools.jar tlc2.TLC -h >/dev/null 2>&1 || true
echo setup ok
